package lincon

import (
	"fmt"
	"sort"
	"strings"

	"golang.org/x/tools/go/ssa"
)

type vkey struct {
	ctx int
	v   ssa.Value
}

// AV is an abstract value.
type AV interface{}

type AInt struct{ l Lin }

// AStr is a string or slice value: a window [off, off+n) into root object obj.
type AStr struct {
	obj   Term // identity of the root object
	off   Lin
	n     Lin
	capa  *Lin // capacity beyond off, if known (slices)
	bytes bool // true for []byte etc (mutable)
}
type ABool struct {
	konst *bool
	ctx   int
	src   ssa.Value // defining value, for refinement
}
type AFunc struct {
	fn   *ssa.Function
	free []AV
}
type ATuple struct{ elems []AV }
type APtr struct { // pointer to a tracked cell
	cell cellKey
}
type AArr struct{ n int64 } // pointer to a local fixed-size array
type AOther struct{}

type cellKey struct {
	ctx   int
	alloc ssa.Value
	path  string
}

type ByteFact struct {
	obj Term
	off Lin
	val byte
	eq  bool
}

type State struct {
	cons  []Con
	dis   []Lin
	bytes []ByteFact
	vals  map[vkey]AV
	nilx  map[vkey]int8 // 1 nil 2 non-nil
	cells map[cellKey]AV
	dead  bool
}

func newState() *State {
	return &State{vals: map[vkey]AV{}, nilx: map[vkey]int8{}, cells: map[cellKey]AV{}}
}

func (s *State) clone() *State {
	n := &State{
		cons:  append([]Con(nil), s.cons...),
		dis:   append([]Lin(nil), s.dis...),
		bytes: append([]ByteFact(nil), s.bytes...),
		vals:  make(map[vkey]AV, len(s.vals)),
		nilx:  make(map[vkey]int8, len(s.nilx)),
		cells: make(map[cellKey]AV, len(s.cells)),
		dead:  s.dead,
	}
	for k, v := range s.vals {
		n.vals[k] = v
	}
	for k, v := range s.nilx {
		n.nilx[k] = v
	}
	for k, v := range s.cells {
		n.cells[k] = v
	}
	return n
}

// --- term table ---

var termNames []string
var termOwner []int
var curCtx int

func newTerm(name string) Term {
	termNames = append(termNames, name)
	termOwner = append(termOwner, curCtx)
	return Term(len(termNames) - 1)
}
func tname(t Term) string { return fmt.Sprintf("%s#%d", termNames[t], int(t)) }

var keyedTerms = map[string]Term{}

func termFor(key, name string) Term {
	if t, ok := keyedTerms[key]; ok {
		return t
	}
	t := newTerm(name)
	keyedTerms[key] = t
	return t
}

// nzTerm is the 0/1 nil-ness indicator of a slice object: 0 for a nil slice,
// 1 for a non-nil one; unconstrained when nothing is known.
func nzTerm(obj Term) Term { return termFor(fmt.Sprintf("nz:%d", obj), "nz("+tname(obj)+")") }

// --- constraint manipulation ---

func (s *State) addLE(l Lin) { // l <= 0
	c, triv, bad := Con{l: l}.norm()
	if bad {
		s.dead = true
		return
	}
	if triv {
		return
	}
	k := c.key()
	for _, o := range s.cons {
		if o.key() == k {
			return
		}
	}
	s.cons = append(s.cons, c)
	s.saturate()
}
func (s *State) addEQ(l Lin) {
	c, triv, bad := Con{l: l, eq: true}.norm()
	if bad {
		s.dead = true
		return
	}
	if triv {
		return
	}
	s.cons = append(s.cons, c)
	s.saturate()
}
func (s *State) addNE(l Lin) {
	if l.isConst() {
		if l.k == 0 {
			s.dead = true
		}
		return
	}
	for _, d := range s.dis {
		if d.equal(l) {
			return
		}
	}
	s.dis = append(s.dis, l)
	s.saturate()
}

func (s *State) saturate() {
	if s.dead {
		return
	}
	for changed := true; changed; {
		changed = false
		rest := s.dis[:0:0]
		for _, d := range s.dis {
			switch {
			case entailsLE(s.cons, d.scale(-1)): // d >= 0
				if entailsLE(s.cons, d) { // d == 0 : contradiction
					s.dead = true
					return
				}
				s.cons = append(s.cons, Con{l: d.scale(-1).addK(1)}) // d >= 1
				changed = true
			case entailsLE(s.cons, d): // d <= 0
				s.cons = append(s.cons, Con{l: d.addK(1)}) // d <= -1
				changed = true
			default:
				rest = append(rest, d)
			}
		}
		s.dis = rest
	}
}

func (s *State) isDead() bool {
	if s.dead {
		return true
	}
	if !feasible(s.cons) {
		s.dead = true
	}
	return s.dead
}

func (s *State) provesLE(l Lin) bool {
	if len(s.dis) > 0 {
		s.saturate()
	}
	return entailsLE(s.cons, l)
}
func (s *State) provesEQ(l Lin) bool { return s.provesLE(l) && s.provesLE(l.scale(-1)) }

// forget eliminates term t from the constraint system (projection).
func (s *State) forget(t Term) {
	var with, without []Con
	for _, c := range s.cons {
		if _, ok := c.l.c[t]; ok {
			with = append(with, c)
		} else {
			without = append(without, c)
		}
	}
	if len(with) == 0 {
		s.dropFacts(t)
		return
	}
	// use an equality with unit coef if there is one
	for i, e := range with {
		if e.eq && (e.l.c[t] == 1 || e.l.c[t] == -1) {
			coef := e.l.c[t]
			rest := e.l.clone()
			delete(rest.c, t)
			sub := rest.scale(-coef)
			for j, c := range with {
				if j == i {
					continue
				}
				v := c.l.c[t]
				l := c.l.clone()
				delete(l.c, t)
				l = l.addScaled(sub, v)
				n, triv, bad := Con{l: l, eq: c.eq}.norm()
				if bad {
					s.dead = true
				}
				if !triv {
					without = append(without, n)
				}
			}
			s.cons = without
			s.substFacts(t, sub)
			return
		}
	}
	var ps, ns []Lin
	for _, c := range with {
		ls := []Lin{c.l}
		if c.eq {
			ls = append(ls, c.l.scale(-1))
		}
		for _, l := range ls {
			if l.c[t] > 0 {
				ps = append(ps, l)
			} else {
				ns = append(ns, l)
			}
		}
	}
	if len(ps)*len(ns) <= 400 {
		for _, p := range ps {
			for _, n := range ns {
				a, b := p.c[t], -n.c[t]
				g := gcd(a, b)
				comb := p.scale(b/g).addScaled(n, a/g)
				delete(comb.c, t)
				nc, triv, bad := Con{l: comb}.norm()
				if bad {
					s.dead = true
				}
				if !triv {
					without = append(without, nc)
				}
			}
		}
	}
	s.cons = dedupe(without)
	s.dropFacts(t)
}

func dedupe(cs []Con) []Con {
	seen := map[string]bool{}
	out := cs[:0:0]
	for _, c := range cs {
		k := c.key()
		if seen[k] {
			continue
		}
		seen[k] = true
		out = append(out, c)
	}
	return out
}

func (s *State) dropFacts(t Term) {
	d := s.dis[:0:0]
	for _, l := range s.dis {
		if _, ok := l.c[t]; !ok {
			d = append(d, l)
		}
	}
	s.dis = d
	b := s.bytes[:0:0]
	for _, f := range s.bytes {
		if _, ok := f.off.c[t]; !ok && f.obj != t {
			b = append(b, f)
		}
	}
	s.bytes = b
}

func (s *State) substFacts(t Term, sub Lin) {
	for i, l := range s.dis {
		if v, ok := l.c[t]; ok {
			n := l.clone()
			delete(n.c, t)
			s.dis[i] = n.addScaled(sub, v)
		}
	}
	for i, f := range s.bytes {
		if v, ok := f.off.c[t]; ok {
			n := f.off.clone()
			delete(n.c, t)
			s.bytes[i].off = n.addScaled(sub, v)
		}
	}
}

// bounds returns the tightest provable constant bounds of l (by probing).
func (s *State) upper(l Lin, cands []int64) (int64, bool) {
	for _, c := range cands {
		if s.provesLE(l.addK(-c)) {
			return c, true
		}
	}
	return 0, false
}

func (s *State) String() string {
	var sb strings.Builder
	var cs []string
	for _, c := range s.cons {
		op := " <= 0"
		if c.eq {
			op = " == 0"
		}
		cs = append(cs, c.l.str(tname)+op)
	}
	sort.Strings(cs)
	sb.WriteString(strings.Join(cs, "; "))
	for _, d := range s.dis {
		sb.WriteString("; " + d.str(tname) + " != 0")
	}
	for _, b := range s.bytes {
		op := "=="
		if !b.eq {
			op = "!="
		}
		fmt.Fprintf(&sb, "; %s[%s]%s%q", tname(b.obj), b.off.str(tname), op, b.val)
	}
	return sb.String()
}

// join computes a weak join: constraints of either side entailed by the other.
// unify brings two states into a common vocabulary: values and memory cells
// on which they differ are equated, on each side, with a merge term, and each
// side is projected onto the terms the other side constrains too.  The merge
// term of a memory cell has a stable name (one per cell), so that the
// constraints found for it at one visit of a loop head are recognised at the
// next (widening compares constraints term by term); a side that already uses
// that name for an older merge has it renamed first.
func unify(a, b *State) (*State, *State, map[vkey]AV, map[cellKey]AV) {
	// unify differing integer / string values through fresh terms
	a, b = a.clone(), b.clone()
	merged := map[vkey]AV{}
	for k, v := range a.vals {
		w, ok := b.vals[k]
		if !ok || sameAV(v, w) {
			continue
		}
		switch x := v.(type) {
		case AInt:
			if y, ok := w.(AInt); ok {
				t := newTerm("j." + k.v.Name())
				a.addEQ(tvar(t).sub(x.l))
				b.addEQ(tvar(t).sub(y.l))
				merged[k] = AInt{tvar(t)}
			}
		case AStr:
			if y, ok := w.(AStr); ok {
				// keep whatever the two sides agree on; only the differing
				// components get a fresh merge term
				nLin := x.n
				if !x.n.equal(y.n) {
					tn := newTerm("len(j." + k.v.Name() + ")")
					nonneg[tn] = true
					a.addEQ(tvar(tn).sub(x.n))
					b.addEQ(tvar(tn).sub(y.n))
					nLin = tvar(tn)
				}
				obj := x.obj
				offLin := x.off
				if x.obj == y.obj {
					if !x.off.equal(y.off) {
						to := newTerm("j." + k.v.Name() + ".off")
						a.addEQ(tvar(to).sub(x.off))
						b.addEQ(tvar(to).sub(y.off))
						offLin = tvar(to)
					}
				} else {
					obj = newTerm("j." + k.v.Name() + ".obj")
					offLin = konst(0)
				}
				merged[k] = AStr{obj: obj, off: offLin, n: nLin, bytes: x.bytes}
			}
		}
	}
	// memory cells holding different integers: merge through a term with a
	// stable name
	mergedCells := map[cellKey]AV{}
	for k, v := range a.cells {
		w, ok := b.cells[k]
		if !ok || sameAV(v, w) {
			continue
		}
		if x, isI := v.(AInt); isI {
			if y, isI := w.(AInt); isI {
				t := termFor(fmt.Sprintf("jcell|%d|%p|%s", k.ctx, k.alloc, k.path), "j.cell"+k.path)
				for _, side := range []*State{a, b} {
					if side.mentions(t) {
						side.rename(t, newTerm("j.cell"+k.path+"'"))
					}
				}
				x, y = a.cells[k].(AInt), b.cells[k].(AInt)
				a.addEQ(tvar(t).sub(x.l))
				b.addEQ(tvar(t).sub(y.l))
				mergedCells[k] = AInt{tvar(t)}
			}
		}
	}
	// project each side onto the terms the other side also constrains, so that
	// implied bounds on shared terms become explicit before the weak join
	ta, tb := termSet(a.cons), termSet(b.cons)
	for t := range ta {
		if !tb[t] {
			a.forget(t)
		}
	}
	for t := range tb {
		if !ta[t] {
			b.forget(t)
		}
	}
	return a, b, merged, mergedCells
}

func renameLin(l Lin, old, nw Term) Lin {
	v, ok := l.c[old]
	if !ok {
		return l
	}
	n := l.clone()
	delete(n.c, old)
	n.c[nw] += v
	if n.c[nw] == 0 {
		delete(n.c, nw)
	}
	return n
}

func renameAV(av AV, old, nw Term) AV {
	switch x := av.(type) {
	case AInt:
		return AInt{renameLin(x.l, old, nw)}
	case AStr:
		if x.obj == old {
			x.obj = nw
		}
		x.off, x.n = renameLin(x.off, old, nw), renameLin(x.n, old, nw)
		return x
	case ATuple:
		el := make([]AV, len(x.elems))
		for i, e := range x.elems {
			el[i] = renameAV(e, old, nw)
		}
		return ATuple{el}
	}
	return av
}

// mentions reports whether the state refers to the term anywhere.
func (s *State) mentions(t Term) bool {
	for _, c := range s.cons {
		if _, ok := c.l.c[t]; ok {
			return true
		}
	}
	for _, d := range s.dis {
		if _, ok := d.c[t]; ok {
			return true
		}
	}
	for _, f := range s.bytes {
		if _, ok := f.off.c[t]; ok || f.obj == t {
			return true
		}
	}
	lt := liveTerms([]*State{{vals: s.vals, cells: s.cells}})
	return lt[t]
}

// rename replaces a term by another one everywhere in the state.
func (s *State) rename(old, nw Term) {
	if nonneg[old] {
		nonneg[nw] = true
	}
	for i, c := range s.cons {
		s.cons[i].l = renameLin(c.l, old, nw)
	}
	for i, d := range s.dis {
		s.dis[i] = renameLin(d, old, nw)
	}
	for i, f := range s.bytes {
		if f.obj == old {
			s.bytes[i].obj = nw
		}
		s.bytes[i].off = renameLin(f.off, old, nw)
	}
	for k, v := range s.vals {
		s.vals[k] = renameAV(v, old, nw)
	}
	for k, v := range s.cells {
		s.cells[k] = renameAV(v, old, nw)
	}
}

func join(a, b *State) *State {
	if a == nil || a.dead {
		return b.clone()
	}
	if b == nil || b.dead {
		return a.clone()
	}
	a, b, merged, mergedCells := unify(a, b)
	r := newState()
	keysA, keysB := conKeys(a.cons), conKeys(b.cons)
	half := func(from []Con, other []Con, otherKeys map[string]bool) {
		for _, c := range from {
			if otherKeys[c.key()] {
				r.cons = append(r.cons, c) // syntactically present on the other side
				continue
			}
			if c.eq {
				if entailsEQ(other, c.l) {
					r.cons = append(r.cons, c)
					continue
				}
				// try the two halves
				if entailsLE(other, c.l) {
					r.cons = append(r.cons, Con{l: c.l})
				}
				if entailsLE(other, c.l.scale(-1)) {
					r.cons = append(r.cons, Con{l: c.l.scale(-1)})
				}
				continue
			}
			if entailsLE(other, c.l) {
				r.cons = append(r.cons, c)
			}
		}
	}
	half(a.cons, b.cons, keysB)
	half(b.cons, a.cons, keysA)
	// template candidates: the weak join only finds bounds that one side
	// states explicitly; sign bounds of the terms on which the sides differ
	// (t >= 1, t >= 0, t >= -1) are tried as well, since both sides often imply them
	// through different constraints.
	diff := map[Term]bool{}
	for _, c := range a.cons {
		if !keysB[c.key()] {
			for t := range c.l.c {
				diff[t] = true
			}
		}
	}
	for _, c := range b.cons {
		if !keysA[c.key()] {
			for t := range c.l.c {
				diff[t] = true
			}
		}
	}
	for t := range diff {
		for _, k := range []int64{1, 0, -1} {
			cand := tvar(t).scale(-1).addK(k) // -t + k <= 0  <=>  t >= k
			if entailsLE(a.cons, cand) && entailsLE(b.cons, cand) {
				r.cons = append(r.cons, Con{l: cand})
				break
			}
		}
	}
	r.cons = dedupe(r.cons)
	// disequalities kept if both have them (syntactically) or other side proves
	seenD := map[string]bool{}
	for _, d := range a.dis {
		for _, e := range b.dis {
			if d.equal(e) && !seenD[d.String()] {
				seenD[d.String()] = true
				r.dis = append(r.dis, d)
				break
			}
		}
	}
	seenB := map[string]bool{}
	for _, f := range a.bytes {
		for _, g := range b.bytes {
			k := fmt.Sprintf("%d|%s|%d|%v", f.obj, f.off.String(), f.val, f.eq)
			if f.obj == g.obj && f.val == g.val && f.eq == g.eq && f.off.equal(g.off) && !seenB[k] {
				seenB[k] = true
				r.bytes = append(r.bytes, f)
				break
			}
		}
	}
	for k, v := range a.vals {
		if w, ok := b.vals[k]; ok && sameAV(v, w) {
			r.vals[k] = v
		}
	}
	for k, v := range merged {
		r.vals[k] = v
	}
	for k, v := range a.nilx {
		if b.nilx[k] == v {
			r.nilx[k] = v
		}
	}
	for k, v := range a.cells {
		if w, ok := b.cells[k]; ok && sameAV(v, w) {
			r.cells[k] = v
		}
	}
	for k, v := range mergedCells {
		r.cells[k] = v
	}
	return r
}

func sameAV(a, b AV) bool {
	switch x := a.(type) {
	case AInt:
		y, ok := b.(AInt)
		return ok && x.l.equal(y.l)
	case AStr:
		y, ok := b.(AStr)
		return ok && x.obj == y.obj && x.off.equal(y.off) && x.n.equal(y.n)
	case ABool:
		y, ok := b.(ABool)
		if !ok {
			return false
		}
		if x.konst != nil || y.konst != nil {
			return x.konst != nil && y.konst != nil && *x.konst == *y.konst
		}
		return x.ctx == y.ctx && x.src == y.src
	case AFunc:
		y, ok := b.(AFunc)
		return ok && x.fn == y.fn
	case APtr:
		y, ok := b.(APtr)
		return ok && x.cell == y.cell
	case AArr:
		y, ok := b.(AArr)
		return ok && x.n == y.n
	case AOther:
		_, ok := b.(AOther)
		return ok
	case ARef:
		y, ok := b.(ARef)
		return ok && x.id == y.id
	case ANil:
		_, ok := b.(ANil)
		return ok
	case ATuple:
		y, ok := b.(ATuple)
		if !ok || len(x.elems) != len(y.elems) {
			return false
		}
		for i := range x.elems {
			if !sameAV(x.elems[i], y.elems[i]) {
				return false
			}
		}
		return true
	}
	return false
}

// leq reports whether a is at least as strong as b on constraints (a ⊑ b).
func leq(a, b *State) bool {
	if a.dead {
		return true
	}
	if b.dead {
		return false
	}
	keys := conKeys(a.cons)
	for _, c := range b.cons {
		if keys[c.key()] {
			continue
		}
		if c.eq {
			if !entailsEQ(a.cons, c.l) {
				return false
			}
		} else if !entailsLE(a.cons, c.l) {
			return false
		}
	}
	return true
}

func termSet(cs []Con) map[Term]bool {
	m := map[Term]bool{}
	for _, c := range cs {
		for t := range c.l.c {
			m[t] = true
		}
	}
	return m
}

func conKeys(cs []Con) map[string]bool {
	m := make(map[string]bool, len(cs))
	for _, c := range cs {
		m[c.key()] = true
	}
	return m
}

// provesUpper: l <= bound, using the assumption that every length term is
// below 2^40 (slices and strings of at most a terabyte).
func (s *State) provesUpper(l Lin, bound int64) bool {
	if l.isConst() {
		return l.k <= bound
	}
	if s.provesLE(l.addK(-bound)) {
		return true
	}
	cons := append([]Con{}, s.cons...)
	seen := map[Term]bool{}
	add := func(t Term) {
		if nonneg[t] && !seen[t] {
			seen[t] = true
			cons = append(cons, Con{l: tvar(t).addK(-(int64(1) << 40))})
		}
	}
	for t := range l.c {
		add(t)
	}
	for _, c := range s.cons {
		for t := range c.l.c {
			add(t)
		}
	}
	return entailsLE(cons, l.addK(-bound))
}
