package lincon

import (
	"fmt"
	"go/constant"
	"go/token"
	"go/types"
	"sort"
	"strings"

	"golang.org/x/tools/go/ssa"
)

type ARef struct{ id vkey } // pointer / interface / map / chan value with tracked nil-ness
type ANil struct{}

type Exit struct {
	s       *State
	results []AV
}

// Oblig is one proof obligation, merged over all calling contexts in which its
// site was analysed.
type Oblig struct {
	Fn      *ssa.Function
	Instr   ssa.Instruction
	Kind    string // index, slice, make, panic, assert:<name>, ...
	Expr    string // SSA-level rendering
	Checked int    // abstract states in which the obligation was examined
	Failed  int    // ... in which it could not be discharged
	Example string // call chain and abstract state of the first failure
	Entries map[string]bool
}

type Analyzer struct {
	prog     *ssa.Program
	fset     *token.FileSet
	obligs   map[string]*Oblig
	order    []string
	ctxIDs   map[string]int
	inScope  func(fn *ssa.Function) bool
	constObj map[Term]string
	byteSrc  map[Term]ByteFact // term of a byte value -> where it was read
	maxDepth int
	trace    bool
	curFn    []*ssa.Function

	// Hook, when set, is called before every instruction is executed in every
	// abstract state; rules use it to attach asserted obligations.
	Hook func(h *Handle)
	// PreserveFields: an opaque call does not modify the fields of the objects
	// the current function received (stated as an assumption by the rule).
	PreserveFields func(call ssa.CallInstruction) bool
	// IndexByteFacts: IndexByte / LastIndexByte with a constant byte split into
	// "not found" and "found at r with s[r] == c" (more states; off by default)
	IndexByteFacts bool
	// CapIsLen: for this cap(x) call the rule has established len(x) == cap(x)
	// (allocated by make([]T, n) and only ever stored whole).
	CapIsLen func(call ssa.CallInstruction) bool
	// NonNilResult reports that the (single, interface-typed) result of the
	// call is never nil, as established by another analysis (error shapes).
	NonNilResult func(call *ssa.Call) bool
	// InvokeSummary refines the result of an interface method call.
	InvokeSummary func(h *Handle, call *ssa.Call, result AV)
	// Reached records the functions whose bodies were analysed.
	Reached   map[*ssa.Function]bool
	heavy     map[*ssa.Function]bool
	callCache map[int]*cacheEntry
	cacheHits int
	// Stats, when non-nil, counts calls and passes per function (debugging).
	Stats map[string]int
	entry *ssa.Function
}

func (a *Analyzer) ctxFor(parent int, site ssa.Instruction, fn *ssa.Function) int {
	k := fmt.Sprintf("%d|%p|%p", parent, site, fn)
	if id, ok := a.ctxIDs[k]; ok {
		return id
	}
	id := len(a.ctxIDs) + 1
	a.ctxIDs[k] = id
	return id
}

func (a *Analyzer) oblige(ins ssa.Instruction, kind, expr string, ok bool, s *State) {
	fn := ins.Parent()
	key := fmt.Sprintf("%p|%p|%s|%s", fn, ins, kind, expr)
	o := a.obligs[key]
	if o == nil {
		o = &Oblig{Fn: fn, Instr: ins, Kind: kind, Expr: expr, Entries: map[string]bool{}}
		a.obligs[key] = o
		a.order = append(a.order, key)
	}
	o.Checked++
	if a.entry != nil {
		o.Entries[a.entry.String()] = true
	}
	if !ok {
		o.Failed++
		if o.Example == "" {
			var chain []string
			for _, f := range a.curFn {
				chain = append(chain, f.Name())
			}
			st := s.String()
			if len(st) > 600 {
				st = st[:600] + "..."
			}
			o.Example = "via " + strings.Join(chain, " > ") + "; abstract state: " + st
		}
	}
}

// ---- value helpers ----

func isIntType(t types.Type) bool {
	b, ok := t.Underlying().(*types.Basic)
	return ok && b.Info()&types.IsInteger != 0
}
func isUnsigned(t types.Type) bool {
	b, ok := t.Underlying().(*types.Basic)
	return ok && b.Info()&types.IsUnsigned != 0
}
func isStringType(t types.Type) bool {
	b, ok := t.Underlying().(*types.Basic)
	return ok && b.Info()&types.IsString != 0
}
func isSliceType(t types.Type) bool {
	_, ok := t.Underlying().(*types.Slice)
	return ok
}
func isBoolType(t types.Type) bool {
	b, ok := t.Underlying().(*types.Basic)
	return ok && b.Info()&types.IsBoolean != 0
}

// fresh creates an unconstrained abstract value of type t identified by key.
func (a *Analyzer) fresh(s *State, key, name string, t types.Type) AV {
	switch {
	case isIntType(t):
		tm := termFor(key, name)
		s.forget(tm)
		if isUnsigned(t) {
			s.addLE(tvar(tm).scale(-1))
		}
		if b, ok := t.Underlying().(*types.Basic); ok {
			switch b.Kind() {
			case types.Uint8:
				s.addLE(tvar(tm).addK(-255))
			case types.Int32: // rune
				s.addLE(tvar(tm).addK(-(1 << 31)))
			}
		}
		return AInt{tvar(tm)}
	case isStringType(t) || isSliceType(t):
		obj := termFor(key+"/obj", name+".obj")
		n := termFor(key+"/len", "len("+name+")")
		nonneg[n] = true
		s.forget(obj)
		s.forget(n)
		s.addLE(tvar(n).scale(-1))
		return AStr{obj: obj, off: konst(0), n: tvar(n), bytes: !isStringType(t)}
	case isBoolType(t):
		return ABool{}
	}
	if tup, ok := t.(*types.Tuple); ok {
		el := make([]AV, tup.Len())
		for i := range el {
			el[i] = a.fresh(s, fmt.Sprintf("%s.%d", key, i), fmt.Sprintf("%s.%d", name, i), tup.At(i).Type())
		}
		return ATuple{el}
	}
	return AOther{}
}

func vname(v ssa.Value) string {
	n := v.Name()
	if p := v.Parent(); p != nil {
		return p.Name() + "." + n
	}
	return n
}

func (a *Analyzer) val(s *State, ctx int, v ssa.Value) AV {
	switch c := v.(type) {
	case *ssa.Const:
		if c.Value == nil {
			if isStringType(c.Type()) || isSliceType(c.Type()) {
				obj := termFor("nilstr", "nil")
				return AStr{obj: obj, off: konst(0), n: konst(0), bytes: isSliceType(c.Type())}
			}
			return ANil{}
		}
		switch c.Value.Kind() {
		case constant.Int:
			if i, ok := constant.Int64Val(c.Value); ok {
				return AInt{konst(i)}
			}
			// a constant beyond int64 (e.g. the maximal uint): some value >= 2^62
			if constant.Sign(c.Value) > 0 && isIntType(c.Type()) {
				t := termFor("bigconst:"+c.Value.ExactString(), "big("+c.Value.ExactString()+")")
				if lb := konst(int64(1) << 62).sub(tvar(t)); !s.provesLE(lb) {
					s.addLE(lb)
				}
				return AInt{tvar(t)}
			}
			return AOther{}
		case constant.String:
			str := constant.StringVal(c.Value)
			obj := termFor("const:"+str, fmt.Sprintf("%q", str))
			a.constObj[obj] = str
			return AStr{obj: obj, off: konst(0), n: konst(int64(len(str)))}
		case constant.Bool:
			b := constant.BoolVal(c.Value)
			return ABool{konst: &b}
		}
		return AOther{}
	case *ssa.Function:
		return AFunc{fn: c}
	case *ssa.Global, *ssa.Builtin:
		return AOther{}
	}
	if av, ok := s.vals[vkey{ctx, v}]; ok {
		return av
	}
	// undefined yet (e.g. value from an unprocessed block): unconstrained
	return a.fresh(s.clone(), fmt.Sprintf("undef|%d|%p", ctx, v), vname(v), v.Type())
}

func (a *Analyzer) set(s *State, ctx int, v ssa.Value, av AV) { s.vals[vkey{ctx, v}] = av }

func (a *Analyzer) freshFor(s *State, ctx int, v ssa.Value) AV {
	return a.fresh(s, fmt.Sprintf("v|%d|%p", ctx, v), vname(v), v.Type())
}

func asLin(av AV) (Lin, bool) {
	if i, ok := av.(AInt); ok {
		return i.l, true
	}
	return Lin{}, false
}

// byteAt returns the known byte of obj at off, if any.
func (a *Analyzer) byteAt(s *State, obj Term, off Lin) (byte, bool) {
	if str, ok := a.constObj[obj]; ok && off.isConst() && off.k >= 0 && off.k < int64(len(str)) {
		return str[off.k], true
	}
	for _, f := range s.bytes {
		if f.eq && f.obj == obj && (f.off.equal(off) || s.provesEQ(f.off.sub(off))) {
			return f.val, true
		}
	}
	return 0, false
}

func (a *Analyzer) addByteFact(s *State, f ByteFact) {
	if _, isConst := a.constObj[f.obj]; isConst {
		return
	}
	if f.eq {
		// distinct known bytes live at distinct offsets
		for _, g := range s.bytes {
			if g.obj == f.obj && g.eq && g.val != f.val {
				s.addNE(g.off.sub(f.off))
			}
			if g.obj == f.obj && !g.eq && g.val == f.val {
				s.addNE(g.off.sub(f.off))
			}
		}
	} else {
		for _, g := range s.bytes {
			if g.obj == f.obj && g.eq && g.val == f.val {
				s.addNE(g.off.sub(f.off))
			}
		}
	}
	for _, g := range s.bytes {
		if g.obj == f.obj && g.val == f.val && g.eq == f.eq && g.off.equal(f.off) {
			return
		}
	}
	s.bytes = append(s.bytes, f)
}

// ---- function analysis ----

type edge struct{ from, to int }

func (a *Analyzer) runFunc(ctx int, fn *ssa.Function, entry *State, depth int) []Exit {
	a.curFn = append(a.curFn, fn)
	defer func() { a.curFn = a.curFn[:len(a.curFn)-1] }()
	if len(fn.Blocks) == 0 {
		return nil
	}
	if a.Reached != nil {
		a.Reached[fn] = true
	}
	dom := func(x, y *ssa.BasicBlock) bool { return x.Dominates(y) }
	nb := len(fn.Blocks)
	edgeOut := map[edge][]*State{}
	// loop slots
	type slots struct {
		back     *State
		keep     map[Term]bool
		keepVals map[vkey]bool
		n        int
	}
	loop := map[int]*slots{}
	isLoopHead := map[int]bool{}
	for _, b := range fn.Blocks {
		for _, p := range b.Preds {
			if dom(b, p) {
				isLoopHead[b.Index] = true
			}
		}
	}
	var exits []Exit
	order := rpo(fn)
	const K = 6
	var finalIn map[int][]*State
	converged := false
	npass := 0
	for pass := 0; pass < 24; pass++ {
		npass++
		exits = nil
		in := map[int][]*State{}
		stable := true
		for _, b := range order {
			var ins []*State
			if b.Index == 0 {
				ins = []*State{entry.clone()}
			}
			if isLoopHead[b.Index] {
				// entry disjuncts stay separate; the back edges share one
				// joined, widened slot expressed over the terms that are live
				// into the loop (everything defined inside is projected out).
				for _, p := range b.Preds {
					if dom(b, p) {
						continue
					}
					for _, st := range edgeOut[edge{p.Index, b.Index}] {
						t := a.phiTransfer(ctx, b, p, st)
						if !t.isDead() {
							ins = append(ins, t)
						}
					}
				}
				ins = reduce(ins, K)
				sl := loop[b.Index]
				if sl == nil {
					sl = &slots{}
					loop[b.Index] = sl
				}
				sl.keep = liveTerms(ins)
				sl.keepVals = liveVals(ins)
				backSt := a.backState(ctx, b, edgeOut, sl.keep, sl.keepVals)
				if backSt != nil {
					if sl.back == nil {
						sl.back = backSt
					} else if !leq(backSt, sl.back) {
						sl.n++
						if a.trace {
							fmt.Printf("DBG slot %s head %d change %d\n  old: %s\n  new: %s\n", fn.Name(), b.Index, sl.n, sl.back.String(), backSt.String())
						}
						if sl.n >= 2 {
							sl.back = widen(sl.back, backSt)
						} else {
							sl.back = join(sl.back, backSt)
						}
						if sl.n >= 6 {
							// give up on relations of the loop-carried values
							sl.back = havocPhis(sl.back, b, ctx)
						}
					}
				}
				if sl.back != nil {
					bs := sl.back.clone()
					a.addInductionRelations(ctx, b, bs)
					ins = append(ins, bs)
				}
			} else {
				for _, p := range b.Preds {
					for _, st := range edgeOut[edge{p.Index, b.Index}] {
						t := a.phiTransfer(ctx, b, p, st)
						if !t.isDead() {
							ins = append(ins, t)
						}
					}
				}
			}
			if a.trace && len(a.curFn) == 1 {
				nc := 0
				for _, st := range ins {
					nc += len(st.cons)
				}
				fmt.Printf("DBG %s pass %d block %d (%s) in-states=%d cons=%d\n", fn.Name(), pass, b.Index, b.Comment, len(ins), nc)
			}
			ins = reduce(ins, K)
			in[b.Index] = ins
			// execute block
			cur := ins
			for _, instr := range b.Instrs {
				if _, ok := instr.(*ssa.Phi); ok {
					continue
				}
				if a.Hook != nil {
					// rule hooks see every disjunct, before any merging
					for _, st := range cur {
						a.Hook(&Handle{A: a, Ctx: ctx, Instr: instr, S: st})
					}
				}
				if call, ok := instr.(*ssa.Call); ok && len(cur) > 2 && a.heavyCallee(&call.Call) {
					// callees with loops are analysed once per pair of
					// incoming disjuncts, not once per disjunct
					cur = reduce(cur, 2)
				}
				var next []*State
				for _, st := range cur {
					next = append(next, a.exec(ctx, instr, st, depth)...)
				}
				cur = next
				cur = reduce(cur, 2*K)
			}
			// terminator
			for _, s := range b.Succs {
				edgeOut[edge{b.Index, s.Index}] = nil
			}
			last := b.Instrs[len(b.Instrs)-1]
			if a.Hook != nil {
				switch last.(type) {
				case *ssa.Return:
					for _, st := range cur {
						a.Hook(&Handle{A: a, Ctx: ctx, Instr: last, S: st, AtTerminator: true})
					}
				}
			}
			switch t := last.(type) {
			case *ssa.If:
				for _, st := range cur {
					ts, fs := a.branch(ctx, t.Cond, st)
					if ts != nil && !ts.isDead() {
						edgeOut[edge{b.Index, b.Succs[0].Index}] = append(edgeOut[edge{b.Index, b.Succs[0].Index}], ts)
					}
					if fs != nil && !fs.isDead() {
						edgeOut[edge{b.Index, b.Succs[1].Index}] = append(edgeOut[edge{b.Index, b.Succs[1].Index}], fs)
					}
				}
			case *ssa.Jump:
				edgeOut[edge{b.Index, b.Succs[0].Index}] = cur
			case *ssa.Return:
				for _, st := range cur {
					var rs []AV
					for _, r := range t.Results {
						rs = append(rs, a.val(st, ctx, r))
					}
					if a.trace {
						nl := ""
						for _, r := range rs {
							if ref, ok := r.(ARef); ok {
								nl += fmt.Sprintf(" nilx=%d", st.nilx[ref.id])
							} else {
								nl += fmt.Sprintf(" %T", r)
							}
						}
						fmt.Printf("DBG return %s block %d:%s | %s\n", fn.Name(), b.Index, nl, st.String())
					}
					exits = append(exits, Exit{st, rs})
				}
			case *ssa.Panic:
				// explicit panic: obligation that it is unreachable
				for _, st := range cur {
					a.oblige(t, "panic", "panic(...)", false, st)
				}
			}
		}
		finalIn = in
		_ = nb
		// the back-edge states produced in this pass must be covered by the
		// loop-head slots, otherwise another pass is needed
		for _, b := range order {
			if !isLoopHead[b.Index] {
				continue
			}
			sl := loop[b.Index]
			if sl == nil {
				continue // head not reached
			}
			backSt := a.backState(ctx, b, edgeOut, sl.keep, sl.keepVals)
			if backSt == nil {
				continue
			}
			if sl.back == nil || !leq(backSt, sl.back) {
				stable = false
			}
		}
		if stable {
			converged = true
			break
		}
	}
	_ = finalIn
	if a.Stats != nil {
		a.Stats[fn.Name()+" calls"]++
		a.Stats[fn.Name()+" passes"] += npass
	}
	if !converged && len(isLoopHead) > 0 {
		// no fixpoint within the pass budget: nothing proved inside this
		// function can be trusted
		a.oblige(fn.Blocks[0].Instrs[0], "fixpoint", "loop analysis of "+fn.Name()+" converged", false, entry)
	}
	return exits
}

// reduce brings the number of disjuncts down to k, first joining states that
// agree on their discrete discriminators (function constants), then anything.
func reduce(sts []*State, k int) []*State {
	if len(sts) <= k {
		return sts
	}
	sig := func(s *State) string {
		var parts []string
		for key, v := range s.vals {
			if f, ok := v.(AFunc); ok {
				if _, isPhi := key.v.(*ssa.Phi); isPhi {
					parts = append(parts, fmt.Sprintf("%p=%p", key.v, f.fn))
				}
			}
		}
		sort.Strings(parts)
		return strings.Join(parts, ",")
	}
	groups := map[string]*State{}
	var order []string
	for _, s := range sts {
		g := sig(s)
		if cur, ok := groups[g]; ok {
			groups[g] = join(cur, s)
		} else {
			groups[g] = s
			order = append(order, g)
		}
	}
	var out []*State
	for _, g := range order {
		out = append(out, groups[g])
	}
	if len(out) > k {
		var j *State
		for _, s := range out {
			j = joinN(j, s)
		}
		out = []*State{j}
	}
	return out
}

func joinN(a, b *State) *State {
	if a == nil {
		return b.clone()
	}
	return join(a, b)
}

func widen(old, nw *State) *State {
	// both sides in a common vocabulary (merge terms for differing values and
	// cells, see unify), then: the constraints of the old side that the new
	// side entails
	a, b, _, _ := unify(old, nw)
	r := old.clone()
	r.cons = nil
	for _, c := range a.cons {
		if c.eq {
			if entailsEQ(b.cons, c.l) {
				r.cons = append(r.cons, c)
				continue
			}
			if entailsLE(b.cons, c.l) {
				r.cons = append(r.cons, Con{l: c.l})
			}
			if entailsLE(b.cons, c.l.scale(-1)) {
				r.cons = append(r.cons, Con{l: c.l.scale(-1)})
			}
			continue
		}
		if entailsLE(b.cons, c.l) {
			r.cons = append(r.cons, c)
		}
	}
	j := join(old, nw)
	r.dis, r.bytes, r.vals, r.nilx, r.cells = j.dis, j.bytes, j.vals, j.nilx, j.cells
	return r
}

func rpo(fn *ssa.Function) []*ssa.BasicBlock {
	seen := make([]bool, len(fn.Blocks))
	var post []*ssa.BasicBlock
	var dfs func(b *ssa.BasicBlock)
	dfs = func(b *ssa.BasicBlock) {
		seen[b.Index] = true
		for _, s := range b.Succs {
			if !seen[s.Index] {
				dfs(s)
			}
		}
		post = append(post, b)
	}
	dfs(fn.Blocks[0])
	for i, j := 0, len(post)-1; i < j; i, j = i+1, j-1 {
		post[i], post[j] = post[j], post[i]
	}
	return post
}

// phiTransfer moves state st along edge p->b, assigning phis simultaneously.
func (a *Analyzer) phiTransfer(ctx int, b, p *ssa.BasicBlock, st *State) *State {
	s := st.clone()
	idx := -1
	for i, q := range b.Preds {
		if q == p {
			idx = i
			break
		}
	}
	type asg struct {
		phi *ssa.Phi
		av  AV
	}
	var asgs []asg
	for _, instr := range b.Instrs {
		phi, ok := instr.(*ssa.Phi)
		if !ok {
			break
		}
		asgs = append(asgs, asg{phi, a.val(s, ctx, phi.Edges[idx])})
	}
	// stage 1: temps
	type tmp struct {
		phi  *ssa.Phi
		kind int
		t1   Term
		t2   Term
		av   AV
	}
	var tmps []tmp
	for _, g := range asgs {
		switch x := g.av.(type) {
		case AInt:
			t := newTerm("tmp")
			s.addEQ(tvar(t).sub(x.l))
			tmps = append(tmps, tmp{phi: g.phi, kind: 1, t1: t})
		case AStr:
			to := newTerm("tmpoff")
			tn := newTerm("tmplen")
			s.addEQ(tvar(to).sub(x.off))
			s.addEQ(tvar(tn).sub(x.n))
			tmps = append(tmps, tmp{phi: g.phi, kind: 2, t1: to, t2: tn, av: x})
		default:
			tmps = append(tmps, tmp{phi: g.phi, kind: 0, av: g.av})
		}
	}
	// stage 2: forget phi terms, rename temps
	for _, t := range tmps {
		key := fmt.Sprintf("v|%d|%p", ctx, t.phi)
		switch t.kind {
		case 1:
			pt := termFor(key, vname(t.phi))
			s.forget(pt)
			s.addEQ(tvar(pt).sub(tvar(t.t1)))
			s.forget(t.t1)
			a.set(s, ctx, t.phi, AInt{tvar(pt)})
		case 2:
			x := t.av.(AStr)
			po := termFor(key+"/off", vname(t.phi)+".off")
			pn := termFor(key+"/len", "len("+vname(t.phi)+")")
			nonneg[pn] = true
			s.forget(po)
			s.forget(pn)
			s.addEQ(tvar(po).sub(tvar(t.t1)))
			s.addEQ(tvar(pn).sub(tvar(t.t2)))
			s.addLE(tvar(pn).scale(-1))
			s.forget(t.t1)
			s.forget(t.t2)
			a.set(s, ctx, t.phi, AStr{obj: x.obj, off: tvar(po), n: tvar(pn), bytes: x.bytes})
		default:
			a.set(s, ctx, t.phi, t.av)
			if r, ok := t.av.(ARef); ok {
				_ = r
			}
		}
	}
	return s
}

// ---- branching ----

func (a *Analyzer) branch(ctx int, cond ssa.Value, st *State) (*State, *State) {
	ts, fs := st.clone(), st.clone()
	a.assume(ctx, cond, true, ts)
	a.assume(ctx, cond, false, fs)
	return ts, fs
}

func (a *Analyzer) assume(ctx int, cond ssa.Value, truth bool, s *State) {
	if c, ok := cond.(*ssa.Const); ok {
		if constant.BoolVal(c.Value) != truth {
			s.dead = true
		}
		return
	}
	av := a.val(s, ctx, cond)
	if b, ok := av.(ABool); ok {
		if b.konst != nil {
			if *b.konst != truth {
				s.dead = true
			}
			return
		}
		if b.src != nil {
			cond, ctx = b.src, b.ctx
		}
	}
	switch c := cond.(type) {
	case *ssa.UnOp:
		if c.Op == token.NOT {
			a.assume(ctx, c.X, !truth, s)
		}
		if c.Op == token.MUL {
			// a Boolean memory cell that was just tested holds that value on
			// this branch (until it is stored to or havocked)
			if p, ok := a.val(s, ctx, c.X).(APtr); ok {
				t := truth
				s.cells[p.cell] = ABool{konst: &t}
			}
		}
	case *ssa.BinOp:
		a.assumeBin(ctx, c, truth, s)
	case *ssa.Call:
		a.assumeCall(ctx, c, truth, s)
	case *ssa.Extract:
		// comma-ok of Next (range) etc.
		if nx, ok := c.Tuple.(*ssa.Next); ok && c.Index == 0 {
			a.assumeNext(ctx, nx, truth, s)
		}
	case *ssa.Phi:
		// boolean phi (short circuit used as value): no refinement
	}
}

func negOp(op token.Token) token.Token {
	switch op {
	case token.EQL:
		return token.NEQ
	case token.NEQ:
		return token.EQL
	case token.LSS:
		return token.GEQ
	case token.GEQ:
		return token.LSS
	case token.GTR:
		return token.LEQ
	case token.LEQ:
		return token.GTR
	}
	return op
}

func (a *Analyzer) assumeBin(ctx int, c *ssa.BinOp, truth bool, s *State) {
	op := c.Op
	if !truth {
		op = negOp(op)
	}
	x, y := a.val(s, ctx, c.X), a.val(s, ctx, c.Y)
	if lx, ok := asLin(x); ok {
		if ly, ok := asLin(y); ok {
			d := lx.sub(ly)
			switch op {
			case token.EQL:
				s.addEQ(d)
				a.byteCompare(s, lx, ly, true)
			case token.NEQ:
				s.addNE(d)
				a.byteCompare(s, lx, ly, false)
			case token.LSS:
				s.addLE(d.addK(1))
			case token.LEQ:
				s.addLE(d)
			case token.GTR:
				s.addLE(d.scale(-1).addK(1))
			case token.GEQ:
				s.addLE(d.scale(-1))
			}
			return
		}
	}
	sx, okx := x.(AStr)
	sy, oky := y.(AStr)
	if okx && oky && (op == token.EQL || op == token.NEQ) {
		if op == token.EQL {
			s.addEQ(sx.n.sub(sy.n))
			// copy constant bytes
			if str, ok := a.constObj[sy.obj]; ok && !sx.bytes && len(str) <= 4 {
				for i := 0; i < len(str); i++ {
					a.addByteFact(s, ByteFact{obj: sx.obj, off: sx.off.addK(int64(i)), val: str[i], eq: true})
				}
			}
		} else {
			// s != "" : len != 0
			if sy.n.isConst() && sy.n.k == 0 {
				s.addNE(sx.n)
			} else if sx.n.isConst() && sx.n.k == 0 {
				s.addNE(sy.n)
			}
		}
		return
	}
	// nil comparisons
	if _, ok := y.(ANil); ok {
		if r, ok := x.(ARef); ok {
			want := int8(1)
			if op == token.NEQ {
				want = 2
			}
			if cur := s.nilx[r.id]; cur != 0 && cur != want {
				s.dead = true
			}
			s.nilx[r.id] = want
		}
		if _, ok := x.(ANil); ok && op == token.NEQ {
			s.dead = true
		}
		if sx, ok := x.(AStr); ok { // slice == nil / != nil
			nz := tvar(nzTerm(sx.obj))
			if op == token.EQL {
				s.addEQ(sx.n)
				s.addEQ(nz)
			} else {
				s.addEQ(nz.addK(-1))
			}
		}
	}
}

// byteCompare records byte facts when one side is a byte read and the other a constant.
func (a *Analyzer) byteCompare(s *State, lx, ly Lin, eq bool) {
	one := func(l, k Lin) {
		if !k.isConst() || len(l.c) != 1 || l.k != 0 {
			return
		}
		for t, c := range l.c {
			if c != 1 {
				return
			}
			if src, ok := a.byteSrc[t]; ok && k.k >= 0 && k.k <= 255 {
				a.addByteFact(s, ByteFact{obj: src.obj, off: src.off, val: byte(k.k), eq: eq})
			}
		}
	}
	one(lx, ly)
	one(ly, lx)
}

func (a *Analyzer) assumeNext(ctx int, nx *ssa.Next, truth bool, s *State) {
	if !truth || !nx.IsString {
		return
	}
	// key within [0, len-1]
	rng, ok := nx.Iter.(*ssa.Range)
	if !ok {
		return
	}
	str, ok := a.val(s, ctx, rng.X).(AStr)
	if !ok {
		return
	}
	tup, ok := a.val(s, ctx, nx).(ATuple)
	if !ok || len(tup.elems) < 2 {
		return
	}
	if k, ok := asLin(tup.elems[1]); ok {
		s.addLE(k.scale(-1))
		s.addLE(k.sub(str.n).addK(1))
	}
}

// liveTerms collects the terms mentioned by the states entering a loop.
func liveTerms(sts []*State) map[Term]bool {
	m := map[Term]bool{}
	var addAV func(av AV)
	addLin := func(l Lin) {
		for t := range l.c {
			m[t] = true
		}
	}
	addAV = func(av AV) {
		switch x := av.(type) {
		case AInt:
			addLin(x.l)
		case AStr:
			m[x.obj] = true
			addLin(x.off)
			addLin(x.n)
		case ATuple:
			for _, e := range x.elems {
				addAV(e)
			}
		case AFunc:
			for _, e := range x.free {
				addAV(e)
			}
		}
	}
	for _, s := range sts {
		for _, c := range s.cons {
			addLin(c.l)
		}
		for _, d := range s.dis {
			addLin(d)
		}
		for _, f := range s.bytes {
			m[f.obj] = true
			addLin(f.off)
		}
		for _, v := range s.vals {
			addAV(v)
		}
		for _, v := range s.cells {
			addAV(v)
		}
	}
	return m
}

func liveVals(sts []*State) map[vkey]bool {
	m := map[vkey]bool{}
	for _, s := range sts {
		for k := range s.vals {
			m[k] = true
		}
	}
	return m
}

// backState joins the states arriving over the back edges of loop head b after
// projecting them onto the terms and values live into the loop.
func (a *Analyzer) backState(ctx int, b *ssa.BasicBlock, edgeOut map[edge][]*State, keep map[Term]bool, keepVals map[vkey]bool) *State {
	var backSt *State
	for _, p := range b.Preds {
		if !b.Dominates(p) {
			continue
		}
		for _, st := range edgeOut[edge{p.Index, b.Index}] {
			t := a.phiTransfer(ctx, b, p, st)
			if t.isDead() {
				continue
			}
			for k := range t.vals {
				if !keepVals[k] {
					delete(t.vals, k)
				}
			}
			for k := range t.nilx {
				if !keepVals[k] {
					delete(t.nilx, k)
				}
			}
			// memory cells are loop-carried too: what a cell holds at the end of
			// the body (a value written or re-read inside the loop) keeps its
			// constraints
			keep := keep
			if len(t.cells) > 0 {
				cellTerms := liveTerms([]*State{{cells: t.cells, vals: map[vkey]AV{}}})
				if len(cellTerms) > 0 {
					k2 := make(map[Term]bool, len(keep)+len(cellTerms))
					for tm := range keep {
						k2[tm] = true
					}
					for tm := range cellTerms {
						k2[tm] = true
					}
					keep = k2
				}
			}
			for tm := range termSet(t.cons) {
				if !keep[tm] {
					t.forget(tm)
				}
			}
			// facts about dropped terms
			d := t.dis[:0:0]
			for _, l := range t.dis {
				ok := true
				for tm := range l.c {
					if !keep[tm] {
						ok = false
					}
				}
				if ok {
					d = append(d, l)
				}
			}
			t.dis = d
			bf := t.bytes[:0:0]
			for _, f := range t.bytes {
				ok := keep[f.obj] || a.isConstObj(f.obj)
				for tm := range f.off.c {
					if !keep[tm] {
						ok = false
					}
				}
				if ok {
					bf = append(bf, f)
				}
			}
			t.bytes = bf
			if !t.isDead() {
				backSt = joinN(backSt, t)
			}
		}
	}
	return backSt
}

func (a *Analyzer) isConstObj(t Term) bool { _, ok := a.constObj[t]; return ok }

// havocPhis drops every constraint on the loop-carried values of head b.
func havocPhis(s *State, b *ssa.BasicBlock, ctx int) *State {
	r := s.clone()
	for _, instr := range b.Instrs {
		phi, ok := instr.(*ssa.Phi)
		if !ok {
			break
		}
		switch x := r.vals[vkey{ctx, phi}].(type) {
		case AInt:
			for t := range x.l.c {
				r.forget(t)
			}
		case AStr:
			for t := range x.off.c {
				r.forget(t)
			}
			for t := range x.n.c {
				r.forget(t)
				r.addLE(tvar(t).scale(-1))
			}
		}
	}
	return r
}

// heavyCallee: the call enters an in-scope function that has a loop or calls
// another in-scope function.
func (a *Analyzer) heavyCallee(c *ssa.CallCommon) bool {
	f := c.StaticCallee()
	if f == nil || len(f.Blocks) == 0 || !a.inScope(f) {
		return f == nil && !c.IsInvoke() // calls through function values: assume heavy
	}
	if h, ok := a.heavy[f]; ok {
		return h
	}
	if a.heavy == nil {
		a.heavy = map[*ssa.Function]bool{}
	}
	a.heavy[f] = false
	h := false
	for _, b := range f.Blocks {
		for _, p := range b.Preds {
			if b.Dominates(p) {
				h = true
			}
		}
		for _, in := range b.Instrs {
			if call, ok := in.(*ssa.Call); ok {
				if g := call.Call.StaticCallee(); g != nil && len(g.Blocks) > 0 && a.inScope(g) {
					h = true
				}
			}
		}
	}
	a.heavy[f] = h
	return h
}

// addInductionRelations strengthens the back-edge state of loop head b with
// the linear relations between its integer induction phis: if p and q are
// phis of b with a single entry edge whose every back-edge operand is p+sp
// resp. q+sq (constants), then sq*(p-p0) == sp*(q-q0) holds at the head on
// every iteration (it holds on entry and every trip adds sq*sp-sp*sq = 0),
// where p0, q0 are the entry operands, which are defined outside the loop.
func (a *Analyzer) addInductionRelations(ctx int, b *ssa.BasicBlock, s *State) {
	type ind struct {
		phi   *ssa.Phi
		step  int64
		entry ssa.Value
	}
	var inds []ind
	for _, instr := range b.Instrs {
		phi, ok := instr.(*ssa.Phi)
		if !ok {
			break
		}
		if !isIntType(phi.Type()) {
			continue
		}
		var entry ssa.Value
		nEntry := 0
		step, okStep, first := int64(0), true, true
		for i, e := range phi.Edges {
			if !b.Dominates(b.Preds[i]) {
				nEntry++
				entry = e
				continue
			}
			k, ok := stepFrom(e, phi)
			if !ok || (!first && k != step) {
				okStep = false
				break
			}
			step, first = k, false
		}
		if nEntry == 1 && okStep && !first && step != 0 {
			inds = append(inds, ind{phi, step, entry})
		}
	}
	for i := 0; i < len(inds); i++ {
		for j := i + 1; j < len(inds); j++ {
			p, q := inds[i], inds[j]
			pl, ok1 := asLin(a.val(s, ctx, p.phi))
			ql, ok2 := asLin(a.val(s, ctx, q.phi))
			p0, ok3 := asLin(a.val(s, ctx, p.entry))
			q0, ok4 := asLin(a.val(s, ctx, q.entry))
			if !ok1 || !ok2 || !ok3 || !ok4 {
				continue
			}
			// sq*(p-p0) - sp*(q-q0) == 0
			rel := pl.sub(p0).scale(q.step).sub(ql.sub(q0).scale(p.step))
			s.addEQ(rel)
		}
	}
}

// stepFrom: v == phi + k for a constant k (through +/- constants).
func stepFrom(v ssa.Value, phi *ssa.Phi) (int64, bool) {
	var k int64
	for i := 0; i < 4; i++ {
		if v == ssa.Value(phi) {
			return k, true
		}
		b, ok := v.(*ssa.BinOp)
		if !ok {
			return 0, false
		}
		c, isC := b.Y.(*ssa.Const)
		if !isC || c.Value == nil || c.Value.Kind() != constant.Int {
			return 0, false
		}
		n, _ := constant.Int64Val(c.Value)
		switch b.Op {
		case token.ADD:
			k += n
		case token.SUB:
			k -= n
		default:
			return 0, false
		}
		v = b.X
	}
	return 0, false
}
