package lincon

import (
	"fmt"
	"go/token"
	"go/types"

	"golang.org/x/tools/go/ssa"
)

func (a *Analyzer) exec(ctx int, instr ssa.Instruction, st *State, depth int) []*State {
	s := st
	switch v := instr.(type) {
	case *ssa.BinOp:
		if extra := a.execBin(ctx, v, s); extra != nil {
			return extra
		}
	case *ssa.UnOp:
		a.execUn(ctx, v, s)
	case *ssa.Convert:
		a.execConvert(ctx, v, v.X, s)
	case *ssa.ChangeType:
		a.set(s, ctx, v, a.val(s, ctx, v.X))
	case *ssa.ChangeInterface:
		a.set(s, ctx, v, a.val(s, ctx, v.X))
	case *ssa.MakeInterface:
		r := ARef{vkey{ctx, v}}
		s.nilx[r.id] = 2
		a.set(s, ctx, v, r)
	case *ssa.Slice:
		a.execSlice(ctx, v, s)
	case *ssa.IndexAddr:
		a.execIndexAddr(ctx, v, s)
	case *ssa.Index:
		a.execIndex(ctx, v, v.X, v.Index, s)
	case *ssa.Lookup:
		if isStringType(v.X.Type()) {
			a.execIndex(ctx, v, v.X, v.Index, s)
		} else {
			a.set(s, ctx, v, a.freshFor(s, ctx, v))
		}
	case *ssa.Alloc:
		key := cellKey{ctx: ctx, alloc: v}
		et := v.Type().Underlying().(*types.Pointer).Elem()
		if arr, ok := et.Underlying().(*types.Array); ok {
			a.set(s, ctx, v, AArr{arr.Len()})
		} else {
			a.set(s, ctx, v, APtr{key})
			// zero value
			switch {
			case isIntType(et):
				s.cells[key] = AInt{konst(0)}
			case isStringType(et):
				s.cells[key] = AStr{obj: termFor("const:", `""`), off: konst(0), n: konst(0)}
			case isBoolType(et):
				f := false
				s.cells[key] = ABool{konst: &f}
			default:
				if _, isStruct := et.Underlying().(*types.Struct); !isStruct {
					s.cells[key] = ANil{}
				} else {
					delete(s.cells, key)
				}
			}
		}
	case *ssa.Store:
		if a.derefNil(ctx, v, v.Addr, s) {
			return nil
		}
		if p, ok := a.val(s, ctx, v.Addr).(APtr); ok {
			s.cells[p.cell] = a.val(s, ctx, v.Val)
			if _, isMap := v.Val.Type().Underlying().(*types.Map); isMap {
				lk := cellKey{p.cell.ctx, p.cell.alloc, p.cell.path + "#len"}
				if mk, isMk := v.Val.(*ssa.MakeMap); isMk && mk != nil {
					s.cells[lk] = AInt{konst(0)} // a fresh map is empty
				} else {
					delete(s.cells, lk)
				}
			}
		}
	case *ssa.FieldAddr:
		if a.derefNil(ctx, v, v.X, s) {
			return nil
		}
		base := a.val(s, ctx, v.X)
		switch b := base.(type) {
		case APtr:
			a.set(s, ctx, v, APtr{cellKey{b.cell.ctx, b.cell.alloc, fmt.Sprintf("%s.%d", b.cell.path, v.Field)}})
		default:
			// field of an external object: key by the base SSA value
			a.set(s, ctx, v, APtr{cellKey{ctx, v.X, fmt.Sprintf(".%d", v.Field)}})
		}
	case *ssa.Field:
		a.set(s, ctx, v, a.freshFor(s, ctx, v))
	case *ssa.Extract:
		if t, ok := a.val(s, ctx, v.Tuple).(ATuple); ok && v.Index < len(t.elems) {
			a.set(s, ctx, v, t.elems[v.Index])
		} else {
			a.set(s, ctx, v, a.freshFor(s, ctx, v))
		}
	case *ssa.Call:
		return a.execCall(ctx, v, s, depth)
	case *ssa.MakeClosure:
		var free []AV
		for _, b := range v.Bindings {
			free = append(free, a.val(s, ctx, b))
		}
		a.set(s, ctx, v, AFunc{fn: v.Fn.(*ssa.Function), free: free})
	case *ssa.MakeSlice:
		n, ok := asLin(a.val(s, ctx, v.Len))
		av := a.freshFor(s, ctx, v).(AStr)
		if ok {
			a.oblige(v, "make", "len>=0", s.provesLE(n.scale(-1)), s)
			s.addEQ(av.n.sub(n))
		}
		a.set(s, ctx, v, av)
	case *ssa.SliceToArrayPointer:
		// [N]T(x) and (*[N]T)(x) panic when len(x) < N
		n := int64(-1)
		if pt, ok := v.Type().Underlying().(*types.Pointer); ok {
			if arr, ok := pt.Elem().Underlying().(*types.Array); ok {
				n = arr.Len()
			}
		}
		ok := false
		x, isStr := a.val(s, ctx, v.X).(AStr)
		if isStr {
			ok = n >= 0 && s.provesLE(konst(n).sub(x.n))
		} else if _, isNil := a.val(s, ctx, v.X).(ANil); isNil {
			ok = n == 0
		}
		a.oblige(v, "convert", fmt.Sprintf("[%d](%s)", n, v.X.Name()), ok, s)
		if isStr {
			s.addLE(konst(n).sub(x.n))
		}
		a.set(s, ctx, v, AArr{n})
	case *ssa.Range:
		a.set(s, ctx, v, AOther{})
	case *ssa.Next:
		a.set(s, ctx, v, a.freshFor(s, ctx, v))
	case *ssa.TypeAssert:
		if !v.CommaOk {
			// obligation decided by the error-shape engine, not here
		}
		a.set(s, ctx, v, a.freshFor(s, ctx, v))
	case *ssa.RunDefers:
		// named-result cells: nil stays nil, non-nil stays non-nil (wrappers)
		for k, cv := range s.cells {
			if a.trace {
				if r, ok := cv.(ARef); ok {
					fmt.Printf("DBG rundefers %s cell %v: ARef id=%v nilx=%d\n", v.Parent().Name(), k.alloc.Name(), r.id, s.nilx[r.id])
				} else {
					fmt.Printf("DBG rundefers %s cell %v: %T\n", v.Parent().Name(), k.alloc.Name(), cv)
				}
			}
			if r, ok := cv.(ARef); ok && s.nilx[r.id] == 2 {
				nr := ARef{vkey{ctx*100000 + v.Block().Index, k.alloc}}
				s.nilx[nr.id] = 2
				s.cells[k] = nr
			}
		}
	case *ssa.MapUpdate:
		if k, ok := a.mapLenCell(s, ctx, v.Map); ok {
			// the same number of entries (key present) or one more
			if old, isInt := s.cells[k].(AInt); isInt {
				t := newTerm("maplen")
				nonneg[t] = true
				s.addLE(tvar(t).scale(-1))
				s.addLE(old.l.sub(tvar(t)))
				s.addLE(tvar(t).sub(old.l).addK(-1))
				s.cells[k] = AInt{tvar(t)}
			}
		}
	case *ssa.Defer, *ssa.Go, *ssa.DebugRef, *ssa.Send:
	case *ssa.If, *ssa.Jump, *ssa.Return, *ssa.Panic:
	default:
		if val, ok := instr.(ssa.Value); ok {
			a.set(s, ctx, val, a.freshFor(s, ctx, val))
		}
	}
	return []*State{s}
}

func (a *Analyzer) execBin(ctx int, v *ssa.BinOp, s *State) (split []*State) {
	a.execBin1(ctx, v, s, &split)
	return split
}

func (a *Analyzer) execBin1(ctx int, v *ssa.BinOp, s *State, split *[]*State) {
	switch v.Op {
	case token.EQL, token.NEQ, token.LSS, token.LEQ, token.GTR, token.GEQ:
		a.set(s, ctx, v, ABool{ctx: ctx, src: v})
		return
	}
	x, y := a.val(s, ctx, v.X), a.val(s, ctx, v.Y)
	lx, okx := asLin(x)
	ly, oky := asLin(y)
	if okx && oky {
		switch v.Op {
		case token.ADD:
			a.set(s, ctx, v, AInt{lx.add(ly)})
			return
		case token.SUB:
			if isUnsigned(v.Type()) && !s.provesLE(ly.sub(lx)) {
				// x - y wraps around unless x >= y
				a.set(s, ctx, v, a.freshFor(s, ctx, v))
				return
			}
			a.set(s, ctx, v, AInt{lx.sub(ly)})
			return
		case token.MUL:
			if ly.isConst() {
				a.set(s, ctx, v, AInt{lx.scale(ly.k)})
				return
			}
			if lx.isConst() {
				a.set(s, ctx, v, AInt{ly.scale(lx.k)})
				return
			}
		case token.QUO, token.REM:
			if isIntType(v.Type()) {
				nz := (ly.isConst() && ly.k != 0) || s.provesLE(konst(1).sub(ly)) || s.provesLE(ly.addK(1))
				a.oblige(v, "div", v.X.Name()+" "+v.Op.String()+" "+v.Y.Name()+" with a non-zero divisor", nz, s)
			}
		}
		switch v.Op {
		case token.QUO:
			if ly.isConst() && ly.k > 0 {
				r := a.freshFor(s, ctx, v).(AInt)
				if s.provesLE(lx.scale(-1)) { // x >= 0: d*q <= x <= d*q + d-1
					s.addLE(r.l.scale(ly.k).sub(lx))
					s.addLE(lx.sub(r.l.scale(ly.k)).addK(-(ly.k - 1)))
				}
				a.set(s, ctx, v, r)
				return
			}
		case token.REM:
			if !ly.isConst() && s.provesLE(konst(1).sub(ly)) && s.provesLE(lx.scale(-1)) {
				// 0 <= x, 1 <= y: 0 <= r <= y-1; when moreover x <= y the result
				// is x itself (x < y) or 0 (x == y): two states
				if s.provesLE(lx.sub(ly)) {
					s2 := s.clone()
					s.addLE(lx.sub(ly).addK(1)) // x <= y-1
					a.set(s, ctx, v, AInt{lx})
					s2.addEQ(lx.sub(ly))
					a.set(s2, ctx, v, AInt{konst(0)})
					*split = []*State{s, s2}
					return
				}
				r := a.freshFor(s, ctx, v).(AInt)
				s.addLE(r.l.scale(-1))
				s.addLE(r.l.sub(ly).addK(1))
				a.set(s, ctx, v, r)
				return
			}
			if ly.isConst() && ly.k > 0 {
				r := a.freshFor(s, ctx, v).(AInt)
				s.addLE(r.l.addK(-(ly.k - 1)))
				s.addLE(r.l.scale(-1).addK(-(ly.k - 1)))
				if s.provesLE(lx.scale(-1)) {
					s.addLE(r.l.scale(-1))
				}
				a.set(s, ctx, v, r)
				return
			}
		case token.AND:
			if ly.isConst() && ly.k >= 0 {
				r := a.freshFor(s, ctx, v).(AInt)
				s.addLE(r.l.scale(-1))
				s.addLE(r.l.addK(-ly.k))
				a.set(s, ctx, v, r)
				return
			}
		}
	}
	if sx, ok := x.(AStr); ok && v.Op == token.ADD {
		if sy, ok := y.(AStr); ok {
			r := a.freshFor(s, ctx, v).(AStr)
			s.addEQ(r.n.sub(sx.n).sub(sy.n))
			a.set(s, ctx, v, r)
			return
		}
	}
	a.set(s, ctx, v, a.freshFor(s, ctx, v))
}

func (a *Analyzer) execUn(ctx int, v *ssa.UnOp, s *State) {
	switch v.Op {
	case token.NOT:
		a.set(s, ctx, v, ABool{ctx: ctx, src: v})
	case token.SUB:
		if l, ok := asLin(a.val(s, ctx, v.X)); ok {
			a.set(s, ctx, v, AInt{l.scale(-1)})
			return
		}
		a.set(s, ctx, v, a.freshFor(s, ctx, v))
	case token.MUL: // load
		if a.derefNil(ctx, v, v.X, s) {
			s.dead = true
			return
		}
		if p, ok := a.val(s, ctx, v.X).(APtr); ok {
			if cv, ok := s.cells[p.cell]; ok {
				a.set(s, ctx, v, cv)
				return
			}
			nv := a.fresh(s, fmt.Sprintf("cell|%d|%p|%s", p.cell.ctx, p.cell.alloc, p.cell.path), "cell"+p.cell.path, v.Type())
			if _, isOther := nv.(AOther); isOther {
				nv = ARef{vkey{ctx, v}}
			}
			s.cells[p.cell] = nv
			a.set(s, ctx, v, nv)
			return
		}
		nv := a.freshFor(s, ctx, v)
		if _, isOther := nv.(AOther); isOther {
			nv = ARef{vkey{ctx, v}}
			delete(s.nilx, vkey{ctx, v})
		}
		a.set(s, ctx, v, nv)
	default:
		a.set(s, ctx, v, a.freshFor(s, ctx, v))
	}
}

func (a *Analyzer) execConvert(ctx int, v ssa.Value, x ssa.Value, s *State) {
	av := a.val(s, ctx, x)
	from, to := x.Type(), v.Type()
	switch {
	case isIntType(from) && isIntType(to):
		// integers are mathematical; a conversion keeps the value only when it
		// provably fits the target type, otherwise the result is any value of
		// that type (wrap-around / sign change)
		l, isLin := asLin(av)
		if !isLin {
			a.set(s, ctx, v, a.freshFor(s, ctx, v))
			return
		}
		fu, tu := isUnsigned(from), isUnsigned(to)
		fw, tw := intWidth(from), intWidth(to)
		fitsLow := tu == fu || !tu || s.provesLE(l.scale(-1))
		if !tu && fu {
			fitsLow = true
		}
		fitsHigh := false
		switch {
		case tw > fw, tw == fw && tu == fu, tw == fw && tu && !fu:
			fitsHigh = true
		default:
			bits := tw
			if !tu {
				bits--
			}
			if bits >= 62 {
				fitsHigh = s.provesUpper(l, (int64(1)<<62)-1)
			} else {
				fitsHigh = s.provesUpper(l, (int64(1)<<uint(bits))-1)
			}
			if !tu && !fu && tw < fw {
				// narrowing signed: also the lower bound
				fitsLow = s.provesLE(l.scale(-1).addK(-(int64(1) << uint(tw-1))))
			}
		}
		if fitsLow && fitsHigh {
			a.set(s, ctx, v, av)
		} else {
			a.set(s, ctx, v, a.freshFor(s, ctx, v))
		}
	case (isStringType(from) || isSliceType(from)) && (isStringType(to) || isSliceType(to)):
		if sx, ok := av.(AStr); ok {
			r := a.freshFor(s, ctx, v).(AStr)
			s.addEQ(r.n.sub(sx.n))
			a.set(s, ctx, v, r)
			return
		}
		a.set(s, ctx, v, a.freshFor(s, ctx, v))
	default:
		a.set(s, ctx, v, a.freshFor(s, ctx, v))
	}
}

func (a *Analyzer) execSlice(ctx int, v *ssa.Slice, s *State) {
	x := a.val(s, ctx, v.X)
	var base AStr
	switch b := x.(type) {
	case AStr:
		base = b
	case AArr:
		obj := termFor(fmt.Sprintf("arr|%d|%p", ctx, v.X), "arr")
		base = AStr{obj: obj, off: konst(0), n: konst(b.n), bytes: true}
	default:
		a.set(s, ctx, v, a.freshFor(s, ctx, v))
		return
	}
	lo, hi := konst(0), base.n
	if v.Low != nil {
		if l, ok := asLin(a.val(s, ctx, v.Low)); ok {
			lo = l
		}
	}
	if v.High != nil {
		if l, ok := asLin(a.val(s, ctx, v.High)); ok {
			hi = l
		}
	}
	expr := fmt.Sprintf("%s[%s:%s]", v.X.Name(), nameOr(v.Low), nameOr(v.High))
	ok := s.provesLE(lo.scale(-1)) && s.provesLE(lo.sub(hi)) && s.provesLE(hi.sub(base.n))
	if !ok && a.trace {
		fmt.Printf("DBG slice %s lo=%s hi=%s n=%s : %v %v %v | %s\n", expr, lo.str(tname), hi.str(tname), base.n.str(tname), s.provesLE(lo.scale(-1)), s.provesLE(lo.sub(hi)), s.provesLE(hi.sub(base.n)), s.String())
	}
	a.oblige(v, "slice", expr, ok, s)
	// continue under the assumption that the slice succeeded
	s.addLE(lo.scale(-1))
	s.addLE(lo.sub(hi))
	s.addLE(hi.sub(base.n))
	a.set(s, ctx, v, AStr{obj: base.obj, off: base.off.add(lo), n: hi.sub(lo), bytes: base.bytes})
}

func nameOr(v ssa.Value) string {
	if v == nil {
		return ""
	}
	return v.Name()
}

func (a *Analyzer) execIndexAddr(ctx int, v *ssa.IndexAddr, s *State) {
	x := a.val(s, ctx, v.X)
	idx, okI := asLin(a.val(s, ctx, v.Index))
	var n Lin
	switch b := x.(type) {
	case AStr:
		n = b.n
	case AArr:
		n = konst(b.n)
	default:
		if pt, ok := v.X.Type().Underlying().(*types.Pointer); ok {
			if arr, ok := pt.Elem().Underlying().(*types.Array); ok {
				n = konst(arr.Len())
				break
			}
		}
		a.set(s, ctx, v, AOther{})
		return
	}
	if okI {
		ok := s.provesLE(idx.scale(-1)) && s.provesLE(idx.sub(n).addK(1))
		if !ok && a.trace {
			fmt.Printf("DBG index %s idx=%s n=%s lo=%v hi=%v\n", v, idx.str(tname), n.str(tname), s.provesLE(idx.scale(-1)), s.provesLE(idx.sub(n).addK(1)))
		}
		a.oblige(v, "index", fmt.Sprintf("%s[%s]", v.X.Name(), v.Index.Name()), ok, s)
		s.addLE(idx.scale(-1))
		s.addLE(idx.sub(n).addK(1))
	}
	a.set(s, ctx, v, AOther{})
}

func (a *Analyzer) execIndex(ctx int, v ssa.Value, xs, is ssa.Value, s *State) {
	x := a.val(s, ctx, xs)
	idx, okI := asLin(a.val(s, ctx, is))
	str, okS := x.(AStr)
	if okS && okI {
		ok := s.provesLE(idx.scale(-1)) && s.provesLE(idx.sub(str.n).addK(1))
		a.oblige(v.(ssa.Instruction), "index", fmt.Sprintf("%s[%s]", xs.Name(), is.Name()), ok, s)
		s.addLE(idx.scale(-1))
		s.addLE(idx.sub(str.n).addK(1))
		r := a.freshFor(s, ctx, v)
		if ri, ok := r.(AInt); ok && !str.bytes {
			off := str.off.add(idx)
			for t := range ri.l.c {
				a.byteSrc[t] = ByteFact{obj: str.obj, off: off}
			}
			if b, ok := a.byteAt(s, str.obj, off); ok {
				s.addEQ(ri.l.addK(-int64(b)))
			}
		}
		a.set(s, ctx, v, r)
		return
	}
	a.set(s, ctx, v, a.freshFor(s, ctx, v))
}

// derefNil records a nil-dereference obligation for a tracked pointer or
// interface value: it fails when x is nil on this abstract path (for instance
// the pointer result of a failed call used before the error is tested).
// Untracked values (parameters, fields of external objects) carry no
// obligation: their non-nil-ness is the caller's documented precondition.
func (a *Analyzer) derefNil(ctx int, in ssa.Instruction, x ssa.Value, s *State) bool {
	isNil, tracked := false, false
	switch r := a.val(s, ctx, x).(type) {
	case ANil:
		isNil, tracked = true, true
	case ARef:
		tracked = true
		isNil = s.nilx[r.id] == 1
	}
	if !tracked {
		return false
	}
	a.oblige(in, "nil-deref", "*"+x.Name(), !isNil, s)
	return isNil
}

func isErrorType(t types.Type) bool {
	n, ok := types.Unalias(t).(*types.Named)
	return ok && n.Obj().Pkg() == nil && n.Obj().Name() == "error"
}

// intWidth is the size in bits of an integer type (int, uint, uintptr: 64).
func intWidth(t types.Type) int {
	b, ok := t.Underlying().(*types.Basic)
	if !ok {
		return 64
	}
	switch b.Kind() {
	case types.Int8, types.Uint8:
		return 8
	case types.Int16, types.Uint16:
		return 16
	case types.Int32, types.Uint32:
		return 32
	}
	return 64
}
