package lincon

import "testing"

func TestEntail(t *testing.T) {
	Reset()
	_ = newTerm("pad")
	ln := newTerm("len")
	t0 := newTerm("t0")
	cons := []Con{
		{l: tvar(t0).scale(-1)},
		{l: tvar(t0).scale(-1).addK(-1)},
		{l: tvar(ln).scale(-1)},
		{l: tvar(ln).scale(-1).add(tvar(t0)).addK(1)},
	}
	if !entailsLE(cons, tvar(t0).scale(-1)) {
		t.Fatal("0 <= t0 not entailed")
	}
	if !entailsLE(cons, tvar(t0).sub(tvar(ln))) {
		t.Fatal("t0 <= len not entailed")
	}
	if entailsLE(cons, tvar(ln).sub(tvar(t0))) {
		t.Fatal("len <= t0 wrongly entailed")
	}
}

func TestEntail2(t *testing.T) {
	Reset()
	_ = newTerm("pad")
	ln := newTerm("len")
	t0 := newTerm("t0")
	cons := []Con{
		{l: tvar(t0).scale(-1)},
		{l: tvar(t0).scale(-1).addK(-1)},
		{l: tvar(ln).scale(-1)},
		{l: tvar(ln).scale(-1).add(tvar(t0)).addK(1)},
		{l: tvar(t0).sub(tvar(ln)).scale(-1).addK(1)},
	}
	t.Log("comp", feasibleComp(cons), "split", feasible(cons))
	for _, c := range cons {
		t.Log(c.l.str(tname), c.l.hash())
	}
}
