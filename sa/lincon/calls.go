package lincon

import (
	"fmt"
	"go/constant"
	"go/token"
	"go/types"

	"golang.org/x/tools/go/ssa"
)

func calleeName(c *ssa.CallCommon) string {
	if b, ok := c.Value.(*ssa.Builtin); ok {
		return "builtin." + b.Name()
	}
	if f := c.StaticCallee(); f != nil {
		if f.Pkg != nil {
			return f.Pkg.Pkg.Path() + "." + f.Name()
		}
		if f.Signature.Recv() != nil {
			return f.String()
		}
		return f.String()
	}
	return ""
}

func (a *Analyzer) strArg(s *State, ctx int, v ssa.Value) (AStr, bool) {
	x, ok := a.val(s, ctx, v).(AStr)
	return x, ok
}

func (a *Analyzer) execCall(ctx int, v *ssa.Call, s *State, depth int) []*State {
	c := &v.Call
	name := calleeName(c)
	args := c.Args
	setFresh := func() AV {
		r := a.freshFor(s, ctx, v)
		a.set(s, ctx, v, r)
		return r
	}
	switch name {
	case "builtin.len":
		switch x := a.val(s, ctx, args[0]).(type) {
		case AStr:
			a.set(s, ctx, v, AInt{x.n})
		default:
			if k, ok := a.mapLenCell(s, ctx, args[0]); ok {
				// the number of entries of a map held in a memory cell: one term
				// per cell, updated by map stores and deletes (exec.go)
				a.set(s, ctx, v, s.cells[k])
				return []*State{s}
			}
			r := setFresh().(AInt)
			s.addLE(r.l.scale(-1))
		}
		return []*State{s}
	case "builtin.cap":
		if x, ok := a.val(s, ctx, args[0]).(AStr); ok && a.CapIsLen != nil && a.CapIsLen(v) {
			// the slice is known to be allocated with len == cap and never re-sliced
			a.set(s, ctx, v, AInt{x.n})
			return []*State{s}
		}
		r := setFresh().(AInt)
		if x, ok := a.val(s, ctx, args[0]).(AStr); ok {
			s.addLE(x.n.sub(r.l))
		}
		return []*State{s}
	case "builtin.min", "builtin.max":
		r := setFresh()
		if ri, ok := r.(AInt); ok {
			var ls []Lin
			for _, ar := range args {
				if l, ok := asLin(a.val(s, ctx, ar)); ok {
					ls = append(ls, l)
				}
			}
			if len(ls) == len(args) {
				// r <= each (min) ; and r equals one of them: split states
				var out []*State
				for i := range ls {
					t := s.clone()
					t.addEQ(ri.l.sub(ls[i]))
					for j := range ls {
						if name == "builtin.min" {
							t.addLE(ls[i].sub(ls[j]))
						} else {
							t.addLE(ls[j].sub(ls[i]))
						}
					}
					if !t.isDead() {
						out = append(out, t)
					}
				}
				return out
			}
		}
		return []*State{s}
	case "builtin.append":
		r := setFresh()
		if rs, ok := r.(AStr); ok {
			if x, ok := a.val(s, ctx, args[0]).(AStr); ok {
				s.addLE(x.n.sub(rs.n))
				if len(args) > 1 {
					if y, ok := a.val(s, ctx, args[1]).(AStr); ok {
						s.addEQ(rs.n.sub(x.n).sub(y.n))
					}
				}
			}
		}
		return []*State{s}
	case "builtin.delete":
		if k, ok := a.mapLenCell(s, ctx, args[0]); ok {
			// one entry fewer, or none (key absent)
			if old, isInt := s.cells[k].(AInt); isInt {
				t := newTerm("maplen")
				nonneg[t] = true
				s.addLE(tvar(t).scale(-1))
				s.addLE(tvar(t).sub(old.l))
				s.addLE(old.l.sub(tvar(t)).addK(-1))
				s.cells[k] = AInt{tvar(t)}
			}
		}
		return []*State{s}
	case "builtin.copy", "builtin.close", "builtin.print", "builtin.println", "builtin.clear":
		setFresh()
		return []*State{s}
	case "builtin.panic":
		a.oblige(v, "panic", "panic()", false, s)
		s.dead = true
		return nil
	}
	if sum, ok := summaries[name]; ok {
		return sum(a, ctx, v, s)
	}
	if f := c.StaticCallee(); f != nil && f.Signature.Recv() != nil {
		if sum, ok := summaries[f.String()]; ok {
			return sum(a, ctx, v, s)
		}
	}
	// inlining of in-scope callee
	var fn *ssa.Function
	var free []AV
	if f := c.StaticCallee(); f != nil {
		fn = f
		if mc, ok := c.Value.(*ssa.MakeClosure); ok {
			for _, b := range mc.Bindings {
				free = append(free, a.val(s, ctx, b))
			}
		}
	} else if !c.IsInvoke() {
		if af, ok := a.val(s, ctx, c.Value).(AFunc); ok {
			fn, free = af.fn, af.free
		}
	}
	if fn != nil && len(fn.Blocks) > 0 && a.inScope(fn) && depth < a.maxDepth {
		cctx := a.ctxFor(ctx, v, fn)
		entry := s.clone()
		var argAVs []AV
		for i, p := range fn.Params {
			if i < len(args) {
				av := a.val(s, ctx, args[i])
				entry.vals[vkey{cctx, p}] = av
				argAVs = append(argAVs, av)
			}
		}
		for i, fv := range fn.FreeVars {
			if i < len(free) {
				entry.vals[vkey{cctx, fv}] = free[i]
				argAVs = append(argAVs, free[i])
			}
		}
		// frame rule: the callee only sees the constraints connected to its
		// arguments (and to the memory cells they point to); the rest of the
		// caller's facts are set aside and re-attached to every exit.
		frame := splitFrame(entry, argAVs)
		// the callee cannot see the caller's SSA values either
		callerVals := entry.vals
		entry.vals = make(map[vkey]AV, len(fn.Params)+len(fn.FreeVars))
		for k, av := range callerVals {
			if k.ctx == cctx {
				entry.vals[k] = av
			}
		}
		var exits []Exit
		if ce := a.callCache[cctx]; ce != nil && sameBindings(ce.entry, entry) && covers(ce.entry, entry) {
			// the callee was already analysed at this site from a weaker (or
			// equal) abstract state: its exits over-approximate this call
			for _, e := range ce.exits {
				st := e.s.clone()
				// the cached exits were computed from a weaker entry: everything
				// the current entry knows about (immutable) terms still holds
				st.cons = dedupe(append(st.cons, entry.cons...))
				for _, d := range entry.dis {
					st.addNE(d)
				}
				for _, f := range entry.bytes {
					a.addByteFact(st, f)
				}
				for k, v := range entry.nilx {
					if st.nilx[k] == 0 {
						st.nilx[k] = v
					}
				}
				if st.isDead() {
					continue
				}
				exits = append(exits, Exit{s: st, results: e.results})
			}
			a.cacheHits++
		} else {
			saved := curCtx
			curCtx = cctx
			exits = a.runFunc(cctx, fn, entry.clone(), depth+1)
			curCtx = saved
			// project callee-local terms away, except those the results mention
			for _, e := range exits {
				keep := map[Term]bool{}
				var mark func(av AV)
				mark = func(av AV) {
					switch x := av.(type) {
					case AInt:
						for t := range x.l.c {
							keep[t] = true
						}
					case AStr:
						keep[x.obj] = true
						for t := range x.off.c {
							keep[t] = true
						}
						for t := range x.n.c {
							keep[t] = true
						}
					case ATuple:
						for _, el := range x.elems {
							mark(el)
						}
					}
				}
				for _, r := range e.results {
					mark(r)
				}
				seen := map[Term]bool{}
				for _, c := range e.s.cons {
					for t := range c.l.c {
						seen[t] = true
					}
				}
				for t := range seen {
					if termOwner[t] == cctx && !keep[t] {
						e.s.forget(t)
					}
				}
				for k := range e.s.vals {
					if k.ctx == cctx {
						delete(e.s.vals, k)
					}
				}
				for k := range e.s.cells {
					if k.ctx == cctx {
						delete(e.s.cells, k)
					}
				}
			}
			if a.callCache == nil {
				a.callCache = map[int]*cacheEntry{}
			}
			ce := &cacheEntry{entry: entry}
			for _, e := range exits {
				ce.exits = append(ce.exits, Exit{s: e.s.clone(), results: e.results})
			}
			a.callCache[cctx] = ce
		}
		for _, e := range exits {
			for k, av := range callerVals {
				if k.ctx != cctx {
					e.s.vals[k] = av
				}
			}
			frame.restore(e.s)
		}
		if a.trace {
			for _, e := range exits {
				fmt.Printf("DBG exit %s results=%v state=%s\n", fn.Name(), fmtAVs(e.results), e.s.String())
			}
		}
		// partition exits by the shape of their results and join inside a class
		classes := map[string]*State{}
		var order []string
		for _, e := range exits {
			key := ""
			for i, r := range e.results {
				e.s.vals[vkey{-(i + 1), v}] = r
				switch x := r.(type) {
				case ANil:
					key += "N"
				case ARef:
					switch e.s.nilx[x.id] {
					case 2:
						key += "R"
					case 1:
						key += "N"
					default:
						key += "?"
					}
				case ABool:
					if x.konst != nil {
						if *x.konst {
							key += "T"
						} else {
							key += "F"
						}
					} else {
						key += "b"
					}
				default:
					key += "."
				}
			}
			if cur, ok := classes[key]; ok {
				classes[key] = join(cur, e.s)
			} else {
				classes[key] = e.s
				order = append(order, key)
			}
		}
		var out []*State
		nres := fn.Signature.Results().Len()
		for _, key := range order {
			t := classes[key]
			rs := make([]AV, nres)
			for i := 0; i < nres; i++ {
				r, ok := t.vals[vkey{-(i + 1), v}]
				if !ok {
					switch key[i] {
					case 'N':
						r = ANil{}
					case 'R':
						ref := ARef{vkey{ctx*1000 + i + 1, v}}
						t.nilx[ref.id] = 2
						r = ref
					case 'T', 'F':
						b := key[i] == 'T'
						r = ABool{konst: &b}
					default:
						r = a.fresh(t, fmt.Sprintf("res|%d|%p|%d", ctx, v, i), fmt.Sprintf("%s.%d", v.Name(), i), fn.Signature.Results().At(i).Type())
						if _, isOther := r.(AOther); isOther {
							r = ARef{vkey{ctx*1000 + i + 1, v}}
						}
					}
				}
				rs[i] = r
			}
			switch nres {
			case 0:
				a.set(t, ctx, v, AOther{})
			case 1:
				a.set(t, ctx, v, rs[0])
			default:
				a.set(t, ctx, v, ATuple{rs})
			}
			out = append(out, t)
		}
		if a.NonNilResult != nil && nres == 1 && a.NonNilResult(v) {
			// another analysis proved the result non-nil in every context
			kept := out[:0]
			for _, t := range out {
				if a.trace {
					fmt.Printf("DBG nonnil filter %s: %#v\n", v, t.vals[vkey{ctx, v}])
				}
				switch r := t.vals[vkey{ctx, v}].(type) {
				case ANil:
					continue
				case ARef:
					if t.nilx[r.id] == 1 {
						continue
					}
					t.nilx[r.id] = 2
				}
				kept = append(kept, t)
			}
			out = kept
		}
		return out
	}
	// unknown call: havoc external field cells, fresh result
	if !pureCall(name) && !(a.PreserveFields != nil && a.PreserveFields(v)) {
		for k := range s.cells {
			if k.path != "" {
				if _, isAlloc := k.alloc.(*ssa.Alloc); !isAlloc {
					delete(s.cells, k)
				}
			}
		}
	}
	r := setFresh()
	if _, isOther := r.(AOther); isOther {
		ref := ARef{vkey{ctx, v}}
		delete(s.nilx, ref.id)
		a.set(s, ctx, v, ref)
	}
	if tup, ok := r.(ATuple); ok {
		for i, e := range tup.elems {
			if _, isOther := e.(AOther); isOther {
				ref := ARef{vkey{ctx*1000 + i + 1, v}}
				delete(s.nilx, ref.id)
				tup.elems[i] = ref
			}
		}
		// (*T, ..., error): the pointer is usable exactly when the error is nil
		if rt, ok := v.Type().(*types.Tuple); ok && rt.Len() >= 2 && isErrorType(rt.At(rt.Len()-1).Type()) && !c.IsInvoke() {
			var ptrs []int
			for i := 0; i < rt.Len()-1; i++ {
				if _, isPtr := rt.At(i).Type().Underlying().(*types.Pointer); isPtr {
					ptrs = append(ptrs, i)
				}
			}
			if eref, isRef := tup.elems[rt.Len()-1].(ARef); isRef && len(ptrs) > 0 {
				okS, errS := s, s.clone()
				okEl := append([]AV(nil), tup.elems...)
				okEl[rt.Len()-1] = ANil{}
				for _, i := range ptrs {
					if pr, isRef := okEl[i].(ARef); isRef {
						okS.nilx[pr.id] = 2
					}
				}
				a.set(okS, ctx, v, ATuple{okEl})
				errEl := append([]AV(nil), tup.elems...)
				errS.nilx[eref.id] = 2
				for _, i := range ptrs {
					errEl[i] = ANil{}
				}
				a.set(errS, ctx, v, ATuple{errEl})
				return []*State{okS, errS}
			}
		}
	}
	if c.IsInvoke() && a.InvokeSummary != nil {
		a.InvokeSummary(&Handle{A: a, Ctx: ctx, Instr: v, S: s}, v, r)
	}
	return []*State{s}
}

func pureCall(name string) bool {
	for _, p := range []string{"strings.", "bytes.", "strconv.", "unicode.", "unicode/utf8.", "net/netip.", "math.", "errors.", "fmt.Errorf", "golang.org/x/net/idna."} {
		if len(name) >= len(p) && name[:len(p)] == p {
			return true
		}
	}
	return false
}

type summary func(a *Analyzer, ctx int, v *ssa.Call, s *State) []*State

var summaries map[string]summary

func init() {
	idx := func(lo int64) summary { // result in [-1, len-1-?]
		return func(a *Analyzer, ctx int, v *ssa.Call, s *State) []*State {
			r := a.freshFor(s, ctx, v).(AInt)
			s.addLE(r.l.scale(-1).addK(-1)) // r >= -1
			if x, ok := a.strArg(s, ctx, v.Call.Args[0]); ok {
				s.addLE(r.l.sub(x.n).addK(1)) // r <= len-1
			}
			a.set(s, ctx, v, r)
			return []*State{s}
		}
	}
	boolSum := func(a *Analyzer, ctx int, v *ssa.Call, s *State) []*State {
		a.set(s, ctx, v, ABool{ctx: ctx, src: v})
		return []*State{s}
	}
	sub := func(a *Analyzer, ctx int, v *ssa.Call, s *State) []*State { // result is a sub-window of arg0
		r := a.freshFor(s, ctx, v)
		if rs, ok := r.(AStr); ok {
			if x, ok := a.strArg(s, ctx, v.Call.Args[0]); ok {
				s.addLE(rs.n.sub(x.n))
			}
		}
		a.set(s, ctx, v, r)
		return []*State{s}
	}
	// net.IP.To4 / To16 return nil or a slice of exactly that length
	ipTo := func(n int64) summary {
		return func(a *Analyzer, ctx int, v *ssa.Call, s *State) []*State {
			t1 := s.clone()
			r1 := a.freshFor(t1, ctx, v).(AStr)
			t1.addEQ(r1.n)
			t1.addEQ(tvar(nzTerm(r1.obj)))
			a.set(t1, ctx, v, r1)
			t2 := s.clone()
			r2 := a.freshFor(t2, ctx, v).(AStr)
			t2.addEQ(r2.n.addK(-n))
			t2.addEQ(tvar(nzTerm(r2.obj)).addK(-1))
			a.set(t2, ctx, v, r2)
			return []*State{t1, t2}
		}
	}
	// Grow(n) panics for n < 0
	growPre := func(a *Analyzer, ctx int, v *ssa.Call, s *State) []*State {
		ok := false
		if n, isLin := asLin(a.val(s, ctx, v.Call.Args[1])); isLin {
			ok = s.provesLE(n.scale(-1))
			a.oblige(v, "libpre", "Grow("+v.Call.Args[1].Name()+") with a non-negative count", ok, s)
			s.addLE(n.scale(-1))
		} else {
			a.oblige(v, "libpre", "Grow("+v.Call.Args[1].Name()+") with a non-negative count", false, s)
		}
		a.set(s, ctx, v, AOther{})
		return []*State{s}
	}
	// IndexByte / LastIndexByte with a constant byte: not found (-1), or found
	// at r with s[r] == c
	idxByte := func(a *Analyzer, ctx int, v *ssa.Call, s *State) []*State {
		x, ok := a.strArg(s, ctx, v.Call.Args[0])
		c, isK := v.Call.Args[1].(*ssa.Const)
		if !a.IndexByteFacts || !ok || !isK || c.Value == nil || x.bytes {
			return idx(0)(a, ctx, v, s)
		}
		cv, exact := constant.Int64Val(constant.ToInt(c.Value))
		if !exact || cv < 0 || cv > 255 {
			return idx(0)(a, ctx, v, s)
		}
		t1 := s.clone()
		a.set(t1, ctx, v, AInt{konst(-1)})
		t2 := s
		r := a.freshFor(t2, ctx, v).(AInt)
		t2.addLE(r.l.scale(-1))        // r >= 0
		t2.addLE(r.l.sub(x.n).addK(1)) // r <= len-1
		a.addByteFact(t2, ByteFact{obj: x.obj, off: x.off.add(r.l), val: byte(cv), eq: true})
		a.set(t2, ctx, v, r)
		return []*State{t1, t2}
	}
	summaries = map[string]summary{
		"strings.IndexByte": idxByte, "strings.LastIndexByte": idxByte, "strings.Index": idx(0),
		"strings.IndexAny": idx(0), "strings.IndexFunc": idx(0), "strings.IndexRune": idx(0), "strings.LastIndex": idx(0),
		"bytes.IndexByte": idx(0), "bytes.IndexAny": idx(0), "bytes.LastIndexByte": idx(0), "bytes.Index": idx(0),
		"strings.HasPrefix": boolSum, "strings.HasSuffix": boolSum, "strings.Contains": boolSum,
		"bytes.HasPrefix": boolSum, "bytes.HasSuffix": boolSum, "bytes.Contains": boolSum, "bytes.Equal": boolSum,
		"strings.EqualFold": boolSum,
		"strings.TrimSpace": sub, "strings.TrimLeft": sub, "strings.TrimRight": sub, "strings.Trim": sub,
		"bytes.TrimSpace": sub, "bytes.TrimLeft": sub, "bytes.TrimRight": sub, "bytes.Trim": sub,
		"strings.TrimSuffix": func(a *Analyzer, ctx int, v *ssa.Call, s *State) []*State {
			x, ok1 := a.strArg(s, ctx, v.Call.Args[0])
			y, ok2 := a.strArg(s, ctx, v.Call.Args[1])
			if !ok1 || !ok2 {
				return sub(a, ctx, v, s)
			}
			// either unchanged, or a prefix shorter by len(suffix)
			t1 := s.clone()
			a.set(t1, ctx, v, x)
			t2 := s.clone()
			t2.addLE(y.n.sub(x.n))
			a.set(t2, ctx, v, AStr{obj: x.obj, off: x.off, n: x.n.sub(y.n), bytes: x.bytes})
			return []*State{t1, t2}
		},
		"strings.ToLower": func(a *Analyzer, ctx int, v *ssa.Call, s *State) []*State {
			a.set(s, ctx, v, a.freshFor(s, ctx, v))
			return []*State{s}
		},
		"strings.Count": func(a *Analyzer, ctx int, v *ssa.Call, s *State) []*State {
			r := a.freshFor(s, ctx, v).(AInt)
			s.addLE(r.l.scale(-1))
			a.set(s, ctx, v, r)
			return []*State{s}
		},
		"strings.Cut": func(a *Analyzer, ctx int, v *ssa.Call, s *State) []*State {
			x, ok1 := a.strArg(s, ctx, v.Call.Args[0])
			sep, ok2 := a.strArg(s, ctx, v.Call.Args[1])
			r := a.freshFor(s, ctx, v)
			a.set(s, ctx, v, r)
			if !ok1 || !ok2 {
				return []*State{s}
			}
			tup := r.(ATuple)
			before := tup.elems[0].(AStr)
			after := tup.elems[1].(AStr)
			// found
			t1 := s.clone()
			tr := true
			b1 := AStr{obj: x.obj, off: x.off, n: before.n}
			a1 := AStr{obj: x.obj, off: x.off.add(before.n).add(sep.n), n: after.n}
			t1.addEQ(before.n.add(sep.n).add(after.n).sub(x.n))
			a.set(t1, ctx, v, ATuple{[]AV{b1, a1, ABool{konst: &tr}}})
			// not found
			t2 := s.clone()
			fl := false
			a.set(t2, ctx, v, ATuple{[]AV{x, AStr{obj: termFor("const:", `""`), off: konst(0), n: konst(0)}, ABool{konst: &fl}}})
			return []*State{t1, t2}
		},
		"strconv.ParseUint": func(a *Analyzer, ctx int, v *ssa.Call, s *State) []*State {
			x, ok := a.strArg(s, ctx, v.Call.Args[0])
			// ok exit: err nil, len(arg) >= 1 ; bad exit: err non-nil
			t1 := s.clone()
			r1 := a.freshFor(t1, ctx, v).(ATuple)
			r1.elems[1] = ANil{}
			if ok {
				t1.addLE(konst(1).sub(x.n))
			}
			a.set(t1, ctx, v, r1)
			t2 := s.clone()
			r2 := a.freshFor(t2, ctx, v).(ATuple)
			ref := ARef{vkey{ctx, v}}
			t2.nilx[ref.id] = 2
			r2.elems[1] = ref
			a.set(t2, ctx, v, r2)
			return []*State{t1, t2}
		},
		"unicode/utf8.DecodeRuneInString": func(a *Analyzer, ctx int, v *ssa.Call, s *State) []*State {
			r := a.freshFor(s, ctx, v).(ATuple)
			if sz, ok := r.elems[1].(AInt); ok {
				s.addLE(sz.l.scale(-1))
				s.addLE(sz.l.addK(-4))
				if x, ok := a.strArg(s, ctx, v.Call.Args[0]); ok {
					s.addLE(sz.l.sub(x.n))
				}
			}
			a.set(s, ctx, v, r)
			return []*State{s}
		},
		"(*strings.Builder).Grow": growPre,
		"(*bytes.Buffer).Grow":    growPre,
		"(net.IP).To4":            ipTo(4),
		"(net.IP).To16":           ipTo(16),
		"(time.Duration).String": func(a *Analyzer, ctx int, v *ssa.Call, s *State) []*State {
			r := a.freshFor(s, ctx, v).(AStr)
			s.addLE(konst(2).sub(r.n))
			a.set(s, ctx, v, r)
			return []*State{s}
		},
	}
}

// assumeCall refines the state with the meaning of a boolean library call.
func (a *Analyzer) assumeCall(ctx int, c *ssa.Call, truth bool, s *State) {
	name := calleeName(&c.Call)
	args := c.Call.Args
	switch name {
	case "strings.HasPrefix", "bytes.HasPrefix", "strings.HasSuffix", "bytes.HasSuffix":
		if !truth {
			return
		}
		x, ok1 := a.strArg(s, ctx, args[0])
		p, ok2 := a.strArg(s, ctx, args[1])
		if !ok1 || !ok2 {
			return
		}
		s.addLE(p.n.sub(x.n))
		if str, ok := a.constObj[p.obj]; ok && !x.bytes && p.off.isConst() && p.n.isConst() && p.n.k <= 16 {
			for i := int64(0); i < p.n.k; i++ {
				b := str[p.off.k+i]
				var off Lin
				if name == "strings.HasPrefix" || name == "bytes.HasPrefix" {
					off = x.off.addK(i)
				} else {
					off = x.off.add(x.n).addK(i - p.n.k)
				}
				a.addByteFact(s, ByteFact{obj: x.obj, off: off, val: b, eq: true})
			}
		}
	case "strings.Contains", "bytes.Contains":
		if !truth {
			return
		}
		x, ok1 := a.strArg(s, ctx, args[0])
		p, ok2 := a.strArg(s, ctx, args[1])
		if ok1 && ok2 {
			s.addLE(p.n.sub(x.n))
		}
	}
	_ = fmt.Sprint
	_ = types.Typ
}

func fmtAVs(avs []AV) string {
	out := ""
	for _, av := range avs {
		switch x := av.(type) {
		case AInt:
			out += " int:" + x.l.str(tname)
		case AStr:
			out += fmt.Sprintf(" str{%s off=%s n=%s}", tname(x.obj), x.off.str(tname), x.n.str(tname))
		default:
			out += fmt.Sprintf(" %T", av)
		}
	}
	return out
}

// frameOf holds the caller facts a callee cannot depend on.
type frameOf struct {
	cons  []Con
	dis   []Lin
	bytes []ByteFact
}

// splitFrame removes from s (in place) every constraint that is not connected,
// through shared terms, to the terms of the given values or of the memory
// cells; it returns the removed part.
func splitFrame(s *State, avs []AV) *frameOf {
	seen := map[Term]bool{}
	var addAV func(av AV)
	addAV = func(av AV) {
		switch x := av.(type) {
		case AInt:
			for t := range x.l.c {
				seen[t] = true
			}
		case AStr:
			seen[x.obj] = true
			for t := range x.off.c {
				seen[t] = true
			}
			for t := range x.n.c {
				seen[t] = true
			}
		case ATuple:
			for _, e := range x.elems {
				addAV(e)
			}
		case AFunc:
			for _, e := range x.free {
				addAV(e)
			}
		}
	}
	for _, av := range avs {
		addAV(av)
	}
	for _, cv := range s.cells {
		addAV(cv)
	}
	used := make([]bool, len(s.cons))
	usedD := make([]bool, len(s.dis))
	usedB := make([]bool, len(s.bytes))
	for changed := true; changed; {
		changed = false
		for i, c := range s.cons {
			if used[i] {
				continue
			}
			for t := range c.l.c {
				if seen[t] {
					used[i] = true
					break
				}
			}
			if used[i] {
				changed = true
				for t := range c.l.c {
					seen[t] = true
				}
			}
		}
		for i, d := range s.dis {
			if usedD[i] {
				continue
			}
			for t := range d.c {
				if seen[t] {
					usedD[i] = true
					break
				}
			}
			if usedD[i] {
				changed = true
				for t := range d.c {
					seen[t] = true
				}
			}
		}
		for i, f := range s.bytes {
			if usedB[i] {
				continue
			}
			hit := seen[f.obj]
			for t := range f.off.c {
				if seen[t] {
					hit = true
				}
			}
			if hit {
				usedB[i] = true
				changed = true
				seen[f.obj] = true
				for t := range f.off.c {
					seen[t] = true
				}
			}
		}
	}
	fr := &frameOf{}
	var kc []Con
	for i, c := range s.cons {
		if used[i] || len(c.l.c) == 0 {
			kc = append(kc, c)
		} else {
			fr.cons = append(fr.cons, c)
		}
	}
	var kd []Lin
	for i, d := range s.dis {
		if usedD[i] {
			kd = append(kd, d)
		} else {
			fr.dis = append(fr.dis, d)
		}
	}
	var kb []ByteFact
	for i, f := range s.bytes {
		if usedB[i] {
			kb = append(kb, f)
		} else {
			fr.bytes = append(fr.bytes, f)
		}
	}
	s.cons, s.dis, s.bytes = kc, kd, kb
	return fr
}

func (fr *frameOf) restore(s *State) {
	s.cons = dedupe(append(s.cons, fr.cons...))
	s.dis = append(s.dis, fr.dis...)
	s.bytes = append(s.bytes, fr.bytes...)
}

type cacheEntry struct {
	entry *State
	exits []Exit
}

// sameBindings: the parameter bindings and memory cells are identical.
func sameBindings(old, nw *State) bool {
	if len(old.vals) != len(nw.vals) || len(old.cells) != len(nw.cells) {
		return false
	}
	for k, v := range old.vals {
		w, ok := nw.vals[k]
		if !ok || !sameAV(v, w) {
			return false
		}
	}
	for k, v := range old.cells {
		w, ok := nw.cells[k]
		if !ok || !sameAV(v, w) {
			return false
		}
	}
	return true
}

// covers: every fact of old holds in nw (nw is at least as strong).
func covers(old, nw *State) bool {
	if !leq(nw, old) {
		return false
	}
	for _, d := range old.dis {
		found := false
		for _, e := range nw.dis {
			if d.equal(e) {
				found = true
				break
			}
		}
		if !found {
			return false
		}
	}
	for _, f := range old.bytes {
		found := false
		for _, g := range nw.bytes {
			if f.obj == g.obj && f.val == g.val && f.eq == g.eq && f.off.equal(g.off) {
				found = true
				break
			}
		}
		if !found {
			return false
		}
	}
	for k, v := range old.nilx {
		if nw.nilx[k] != v {
			return false
		}
	}
	return true
}

// mapLenCell returns the pseudo cell holding the entry count of a map that was
// loaded from a memory cell (`len(c.items)`), creating it on first use.
func (a *Analyzer) mapLenCell(s *State, ctx int, m ssa.Value) (cellKey, bool) {
	if _, isMap := m.Type().Underlying().(*types.Map); !isMap {
		return cellKey{}, false
	}
	ld, ok := m.(*ssa.UnOp)
	if !ok || ld.Op != token.MUL {
		return cellKey{}, false
	}
	p, ok := a.val(s, ctx, ld.X).(APtr)
	if !ok {
		return cellKey{}, false
	}
	k := cellKey{p.cell.ctx, p.cell.alloc, p.cell.path + "#len"}
	if _, have := s.cells[k]; !have {
		t := termFor(fmt.Sprintf("cell|%d|%p|%s#len", k.ctx, k.alloc, p.cell.path), "len(cell"+p.cell.path+")")
		nonneg[t] = true
		s.forget(t)
		s.addLE(tvar(t).scale(-1))
		s.cells[k] = AInt{tvar(t)}
	}
	return k, true
}
