// Package lincon is engine E1: a relational abstract interpreter over go/ssa.
// Abstract states are conjunctions of linear constraints over integer SSA
// values, lengths of strings/slices and tracked memory cells, plus byte facts
// about immutable strings and nil-ness of references; entailment is decided by
// Fourier–Motzkin elimination.  It never executes the analysed code.
package lincon

import (
	"fmt"
	"go/token"
	"go/types"
	"sort"

	"golang.org/x/tools/go/ssa"
)

// New returns an analyzer for the program.  inScope says which callees are
// analysed in the caller's context (inlined) instead of being havocked.
func New(prog *ssa.Program, inScope func(fn *ssa.Function) bool) *Analyzer {
	return &Analyzer{
		prog: prog, fset: prog.Fset, obligs: map[string]*Oblig{}, ctxIDs: map[string]int{},
		constObj: map[Term]string{}, byteSrc: map[Term]ByteFact{}, maxDepth: 6,
		inScope: inScope, Reached: map[*ssa.Function]bool{},
	}
}

// SetTrace switches debug output.
func (a *Analyzer) SetTrace(on bool) { a.trace = on }

// Entry analyses fn with unconstrained parameters.  setup, if not nil, may
// constrain the entry state (struct invariants, documented preconditions).
func (a *Analyzer) Entry(fn *ssa.Function, setup func(h *Handle)) {
	a.entry = fn
	ctx := a.ctxFor(0, nil, fn)
	entry := newState()
	for _, p := range fn.Params {
		av := a.fresh(entry, fmt.Sprintf("param|%p", p), p.Name(), p.Type())
		if _, isOther := av.(AOther); isOther {
			av = ARef{vkey{ctx, p}}
		}
		entry.vals[vkey{ctx, p}] = av
	}
	for _, fv := range fn.FreeVars {
		av := a.fresh(entry, fmt.Sprintf("freevar|%p", fv), fv.Name(), fv.Type())
		if _, isOther := av.(AOther); isOther {
			av = ARef{vkey{ctx, fv}}
		}
		entry.vals[vkey{ctx, fv}] = av
	}
	if setup != nil {
		setup(&Handle{A: a, Ctx: ctx, S: entry})
	}
	saved := curCtx
	curCtx = ctx
	a.runFunc(ctx, fn, entry, 0)
	curCtx = saved
	a.entry = nil
}

// Obligations returns the obligations in first-seen order.
func (a *Analyzer) Obligations() []*Oblig {
	out := make([]*Oblig, 0, len(a.order))
	for _, k := range a.order {
		out = append(out, a.obligs[k])
	}
	sort.SliceStable(out, func(i, j int) bool {
		if out[i].Fn != out[j].Fn {
			return out[i].Fn.String() < out[j].Fn.String()
		}
		return out[i].Instr.Pos() < out[j].Instr.Pos()
	})
	return out
}

// Reset forgets the global term tables (between independent analyses).
func Reset() {
	termNames, termOwner, curCtx = nil, nil, 0
	keyedTerms = map[string]Term{}
	nonneg = map[Term]bool{}
}

// Handle gives rule hooks access to the abstract state at an instruction.
type Handle struct {
	A            *Analyzer
	Ctx          int
	Instr        ssa.Instruction
	S            *State
	AtTerminator bool
}

// Int returns the linear form of an integer SSA value.
func (h *Handle) Int(v ssa.Value) (Lin, bool) { return asLin(h.A.val(h.S, h.Ctx, v)) }

// Len returns the linear form of len(v) for a string/slice value.
func (h *Handle) Len(v ssa.Value) (Lin, bool) {
	if s, ok := h.A.val(h.S, h.Ctx, v).(AStr); ok {
		return s.n, true
	}
	return Lin{}, false
}

// Field returns the linear form of the current content of base.<field index>
// (an integer field of an object the function received), creating the cell if
// it does not exist yet.
func (h *Handle) Field(base ssa.Value, field int, name string, unsigned bool) Lin {
	key := cellKey{h.Ctx, base, fmt.Sprintf(".%d", field)}
	if cv, ok := h.S.cells[key]; ok {
		if l, ok := asLin(cv); ok {
			return l
		}
	}
	t := termFor(fmt.Sprintf("cell|%d|%p|.%d", h.Ctx, base, field), "cell."+name)
	if unsigned {
		h.S.addLE(tvar(t).scale(-1))
	}
	h.S.cells[key] = AInt{tvar(t)}
	return tvar(t)
}

// SliceFieldLen returns the linear form of len(base.<field index>) for a
// slice- or string-typed field of an object the function received, creating
// the cell if it does not exist yet.
func (h *Handle) SliceFieldLen(base ssa.Value, field int, name string, t types.Type) (Lin, bool) {
	key := cellKey{h.Ctx, base, fmt.Sprintf(".%d", field)}
	if cv, ok := h.S.cells[key]; ok {
		if sv, ok := cv.(AStr); ok {
			return sv.n, true
		}
		return Lin{}, false
	}
	av := h.A.fresh(h.S, fmt.Sprintf("cell|%d|%p|.%d", h.Ctx, base, field), "cell."+name, t)
	sv, ok := av.(AStr)
	if !ok {
		return Lin{}, false
	}
	h.S.cells[key] = sv
	return sv.n, true
}

// BoolField returns the value of a Boolean field of an object the function
// received, when the state knows it (tested on this path or stored).
func (h *Handle) BoolField(base ssa.Value, field int) (val, known bool) {
	cv, ok := h.S.cells[cellKey{h.Ctx, base, fmt.Sprintf(".%d", field)}]
	if !ok {
		return false, false
	}
	if b, ok := cv.(ABool); ok && b.konst != nil {
		return *b.konst, true
	}
	return false, false
}

// SliceView returns the abstract view (backing object, offset, length) of a
// string or slice value.
func (h *Handle) SliceView(v ssa.Value) (obj int, off, n Lin, ok bool) {
	switch x := h.A.val(h.S, h.Ctx, v).(type) {
	case AStr:
		return int(x.obj), x.off, x.n, true
	case ANil:
		return -1, konst(0), konst(0), true
	}
	return 0, Lin{}, Lin{}, false
}

// SliceFieldObj returns the backing object of a slice-typed field cell.
func (h *Handle) SliceFieldObj(base ssa.Value, field int) (int, bool) {
	if cv, ok := h.S.cells[cellKey{h.Ctx, base, fmt.Sprintf(".%d", field)}]; ok {
		if sv, ok := cv.(AStr); ok {
			return int(sv.obj), true
		}
	}
	return 0, false
}

// FieldPath is Field for a nested field, path like ".4.0".
func (h *Handle) FieldPath(base ssa.Value, path, name string, unsigned bool) Lin {
	key := cellKey{h.Ctx, base, path}
	if cv, ok := h.S.cells[key]; ok {
		if l, ok := asLin(cv); ok {
			return l
		}
	}
	t := termFor(fmt.Sprintf("cell|%d|%p|%s", h.Ctx, base, path), "cell"+name)
	if unsigned {
		h.S.addLE(tvar(t).scale(-1))
	}
	h.S.cells[key] = AInt{tvar(t)}
	return tvar(t)
}

// HavocInt replaces the content of an integer cell (path like ".3", or
// ".0#len" for the entry count of a map field) by an arbitrary non-negative
// value and returns it.
func (h *Handle) HavocInt(base ssa.Value, path, name string) Lin {
	t := newTerm("havoc" + name)
	nonneg[t] = true
	h.S.addLE(tvar(t).scale(-1))
	h.S.cells[cellKey{h.Ctx, base, path}] = AInt{tvar(t)}
	return tvar(t)
}

// SetIntCell stores a constant in an integer cell (ghost state of a rule).
func (h *Handle) SetIntCell(base ssa.Value, path string, k int64) {
	h.S.cells[cellKey{h.Ctx, base, path}] = AInt{konst(k)}
}

// IntCell returns the current content of an integer cell, if it exists.
func (h *Handle) IntCell(base ssa.Value, path string) (Lin, bool) {
	cv, ok := h.S.cells[cellKey{h.Ctx, base, path}]
	if !ok {
		return Lin{}, false
	}
	return asLin(cv)
}

// Cell returns the integer content of a field of a local object (alloc) given
// the path of field indices, e.g. ".3.1".
func (h *Handle) Cell(alloc ssa.Value, path string) (Lin, bool) {
	cv, ok := h.S.cells[cellKey{h.Ctx, alloc, path}]
	if !ok {
		return Lin{}, false
	}
	return asLin(cv)
}

// Assume adds l <= 0 to the state.
func (h *Handle) AssumeLE(l Lin) { h.S.addLE(l) }

// ProvesLE reports whether the state entails l <= 0.
func (h *Handle) ProvesLE(l Lin) bool { return h.S.provesLE(l) }

// ProvesEQ reports whether the state entails l == 0.
func (h *Handle) ProvesEQ(l Lin) bool { return h.S.provesEQ(l) }

// Assert records an asserted obligation at the current instruction.
func (h *Handle) Assert(name, expr string, ok bool) {
	h.A.oblige(h.Instr, "assert:"+name, expr, ok, h.S)
}

// NonNil reports whether v is known non-nil (2), nil (1) or unknown (0).
func (h *Handle) Nilness(v ssa.Value) int {
	switch x := h.A.val(h.S, h.Ctx, v).(type) {
	case ANil:
		return 1
	case ARef:
		return int(h.S.nilx[x.id])
	}
	return 0
}

// ByteAt returns the known byte of string v at offset off (relative to v).
func (h *Handle) ByteAt(v ssa.Value, off Lin) (byte, bool) {
	s, ok := h.A.val(h.S, h.Ctx, v).(AStr)
	if !ok {
		return 0, false
	}
	return h.A.byteAt(h.S, s.obj, s.off.add(off))
}

// ByteNot reports whether string v at offset off is known to differ from b.
func (h *Handle) ByteNot(v ssa.Value, off Lin, b byte) bool {
	s, ok := h.A.val(h.S, h.Ctx, v).(AStr)
	if !ok {
		return false
	}
	at := s.off.add(off)
	if kb, ok := h.A.byteAt(h.S, s.obj, at); ok {
		return kb != b
	}
	for _, f := range h.S.bytes {
		if !f.eq && f.obj == s.obj && f.val == b && (f.off.equal(at) || h.S.provesEQ(f.off.sub(at))) {
			return true
		}
	}
	return false
}

// State renders the abstract state.
func (h *Handle) State() string { return h.S.String() }

// Linear-form constructors for rules.
func K(k int64) Lin            { return konst(k) }
func (a Lin) Add(b Lin) Lin    { return a.add(b) }
func (a Lin) Sub(b Lin) Lin    { return a.sub(b) }
func (a Lin) AddK(k int64) Lin { return a.addK(k) }
func (a Lin) Neg() Lin         { return a.scale(-1) }
func (a Lin) Text() string     { return a.str(tname) }

// Pos is the position of the obligation's instruction (falls back to the
// enclosing function).
func (o *Oblig) Pos() token.Pos {
	if o.Instr.Pos().IsValid() {
		return o.Instr.Pos()
	}
	for _, in := range o.Instr.Block().Instrs {
		if in.Pos().IsValid() {
			return in.Pos()
		}
	}
	return o.Fn.Pos()
}

// AV is exported for hooks that receive call results.
// TupleInt returns the linear form of element i of a tuple result.
func TupleInt(av AV, i int) (Lin, bool) {
	t, ok := av.(ATuple)
	if !ok || i >= len(t.elems) {
		return Lin{}, false
	}
	return asLin(t.elems[i])
}
