package boolfn

import (
	"sort"
	"strconv"
	"strings"

	"golang.org/x/tools/go/ssa"
)

// Symbolic strings of symbolic length.
//
// A KSym value is a concatenation of segments; a segment is a case split over
// mutually exclusive, jointly exhaustive conditions, each case a byte string of
// its own length whose bits are Boolean functions of the inputs.  This is what
// strconv.Itoa of a symbolic byte is (three cases by the number of digits), and
// what a strings.Builder holds after a sequence of writes.  Writes happen only
// where the path condition is the constant true: a write under a symbolic
// condition is outside the grammar.

// Alt is one case of a segment.
type Alt struct {
	Cond  int
	Bytes [][]int
}

// Seg is a case split.
type Seg []Alt

func (e *Eval) constBytes(s string) [][]int {
	out := make([][]int, len(s))
	for i := range out {
		out[i] = e.Const(int64(s[i]), 8, false).Bits
	}
	return out
}

// segsOf views a string-like value as segments.
func (e *Eval) segsOf(v Val) ([]Seg, bool) {
	switch v.Kind {
	case KSym:
		return v.Segs, true
	case KStr:
		if v.Str == "" {
			return nil, true
		}
		return []Seg{{Alt{1, e.constBytes(v.Str)}}}, true
	case KSlice:
		if v.cell != nil && v.cell.items != nil {
			return nil, false
		}
		if v.Hi == v.Lo {
			return nil, true
		}
		return []Seg{{Alt{1, append([][]int(nil), v.Elems[v.Lo:v.Hi]...)}}}, true
	case KArray:
		return []Seg{{Alt{1, append([][]int(nil), v.Elems...)}}}, true
	case KOpaque:
		if v.Name == "nil" {
			return nil, true
		}
	}
	return nil, false
}

func (e *Eval) concat(a, b Val) Val {
	sa, ok1 := e.segsOf(a)
	sb, ok2 := e.segsOf(b)
	if !ok1 || !ok2 {
		unsupported("concatenation of values that are not strings")
	}
	out := make([]Seg, 0, len(sa)+len(sb))
	out = append(out, sa...)
	out = append(out, sb...)
	return Val{Kind: KSym, Segs: out}
}

// Expand lists the cases of a string-like value: every combination of segment
// alternatives whose joint condition is satisfiable.
func (e *Eval) Expand(v Val) (alts []Alt, err error) {
	defer func() {
		if r := recover(); r != nil {
			if u, ok := r.(*Unsupported); ok {
				err = u
				return
			}
			panic(r)
		}
	}()
	segs, ok := e.segsOf(v)
	if !ok {
		unsupported("not a string value")
	}
	alts = []Alt{{Cond: 1}}
	for _, s := range segs {
		var next []Alt
		for _, a := range alts {
			for _, c := range s {
				cond := e.M.And(a.Cond, c.Cond)
				if cond == 0 {
					continue
				}
				bs := make([][]int, 0, len(a.Bytes)+len(c.Bytes))
				bs = append(bs, a.Bytes...)
				bs = append(bs, c.Bytes...)
				next = append(next, Alt{cond, bs})
			}
		}
		if len(next) > 1<<14 {
			unsupported("too many cases of a symbolic string")
		}
		alts = next
	}
	return alts, nil
}

// support returns the positions of the non-constant bits and the value of the
// constant ones.
func support(bits []int) (pos []int, base uint64) {
	for i, b := range bits {
		switch b {
		case 0:
		case 1:
			if i < 64 {
				base |= 1 << uint(i)
			}
		default:
			pos = append(pos, i)
		}
	}
	return
}

// enum calls f for every value the bit vector can take, with the condition
// under which it takes it.
func (e *Eval) enum(bits []int, f func(v uint64, cond int)) {
	pos, base := support(bits)
	if len(pos) > 12 {
		unsupported("value with %d free bits cannot be enumerated", len(pos))
	}
	m := e.M
	for a := 0; a < 1<<uint(len(pos)); a++ {
		cond, v := 1, base
		for k, p := range pos {
			bit := bits[p]
			if (a>>uint(k))&1 == 1 {
				if p < 64 {
					v |= 1 << uint(p)
				}
			} else {
				bit = m.Not(bit)
			}
			cond = m.And(cond, bit)
			if cond == 0 {
				break
			}
		}
		if cond != 0 {
			f(v, cond)
		}
	}
}

func asSigned(v uint64, width int) int64 {
	if width < 64 && v&(1<<uint(width-1)) != 0 {
		return int64(v | ^uint64(0)<<uint(width))
	}
	return int64(v)
}

// formatted is the segment of format(x) for every value of x.
func (e *Eval) formatted(x Val, format func(v uint64) string) Val {
	m := e.M
	byLen := map[int]*Alt{}
	e.enum(x.Bits, func(v uint64, cond int) {
		s := format(v)
		a := byLen[len(s)]
		if a == nil {
			a = &Alt{Bytes: make([][]int, len(s))}
			for i := range a.Bytes {
				a.Bytes[i] = make([]int, 8)
			}
			byLen[len(s)] = a
		}
		a.Cond = m.Or(a.Cond, cond)
		for i := 0; i < len(s); i++ {
			for b := 0; b < 8; b++ {
				if (s[i]>>uint(b))&1 == 1 {
					a.Bytes[i][b] = m.Or(a.Bytes[i][b], cond)
				}
			}
		}
	})
	var lens []int
	for l := range byLen {
		lens = append(lens, l)
	}
	sort.Ints(lens)
	seg := Seg{}
	for _, l := range lens {
		seg = append(seg, *byLen[l])
	}
	return Val{Kind: KSym, Segs: []Seg{seg}}
}

// tableByte is table[i] for a symbolic index; ok=false when the index can be
// out of range.
func (e *Eval) tableByte(table [][]int, idx []int) ([]int, bool) {
	return e.tableByteUnder(table, idx, 1)
}

// tableByteUnder: index values that cannot occur under the condition given
// (the path condition of the read) are not looked at.
func (e *Eval) tableByteUnder(table [][]int, idx []int, here int) ([]int, bool) {
	m := e.M
	out := make([]int, 8)
	ok := true
	e.enum(idx, func(v uint64, cond int) {
		if m.And(here, cond) == 0 {
			return
		}
		if v >= uint64(len(table)) {
			ok = false
			return
		}
		for b := 0; b < 8; b++ {
			out[b] = m.Or(out[b], m.And(cond, table[v][b]))
		}
	})
	return out, ok
}

// divmod evaluates x/y and x%y by enumeration of both operands.
func (e *Eval) divmod(x, y Val, rem bool) Val {
	m := e.M
	w := len(x.Bits)
	out := make([]int, w)
	e.enum(x.Bits, func(a uint64, ca int) {
		e.enum(y.Bits, func(b uint64, cb int) {
			cond := m.And(ca, cb)
			if cond == 0 {
				return
			}
			if b == 0 {
				unsupported("division by a value that can be zero")
			}
			var r uint64
			if x.Signed {
				sa, sb := asSigned(a, w), asSigned(b, w)
				if rem {
					r = uint64(sa % sb)
				} else {
					r = uint64(sa / sb)
				}
			} else if rem {
				r = a % b
			} else {
				r = a / b
			}
			for i := 0; i < w && i < 64; i++ {
				if (r>>uint(i))&1 == 1 {
					out[i] = m.Or(out[i], cond)
				}
			}
		})
	})
	return Val{Kind: KBits, Bits: out, Signed: x.Signed}
}

func constOf(v Val) (int64, bool) {
	if v.Kind != KBits {
		return 0, false
	}
	pos, base := support(v.Bits)
	if len(pos) != 0 {
		return 0, false
	}
	return asSigned(base, len(v.Bits)), true
}

// symCall gives meaning to the library calls that build strings.  cond is the
// absolute path condition of the call.
func (e *Eval) symCall(name string, c *ssa.CallCommon, args []Val, cond int) (Val, bool) {
	builder := func() *cell {
		if len(args) == 0 || args[0].Kind != KCell || args[0].cell == nil {
			unsupported("builder method on a value that is not a local builder")
		}
		if cond != 1 {
			unsupported("write to a builder under a symbolic condition")
		}
		return args[0].cell
	}
	if strings.HasPrefix(name, "slices.Reverse[") && len(args) == 1 && args[0].Kind == KSlice && (args[0].cell == nil || args[0].cell.items == nil) {
		// in place, under the condition of the call
		el, lo, hi := args[0].Elems, args[0].Lo, args[0].Hi
		old := append([][]int(nil), el[lo:hi]...)
		for i := range old {
			nw := make([]int, len(old[i]))
			for b := range nw {
				nw[b] = e.M.Ite(cond, old[len(old)-1-i][b], old[i][b])
			}
			el[lo+i] = nw
		}
		return Opaque("void"), true
	}
	if name == "builtin.clear" && len(args) == 1 && args[0].Kind == KSlice && (args[0].cell == nil || args[0].cell.items == nil) {
		// zero the window in place, under the condition of the call
		el := args[0].Elems
		for i := args[0].Lo; i < args[0].Hi; i++ {
			nw := make([]int, len(el[i]))
			for b := range nw {
				nw[b] = e.M.Ite(cond, 0, el[i][b])
			}
			el[i] = nw
		}
		return Opaque("void"), true
	}
	if name == "builtin.copy" && len(args) == 2 && args[0].Kind == KSlice && (args[0].cell == nil || args[0].cell.items == nil) {
		// memmove semantics: the source is read before anything is written
		src, ok := e.strBytes(args[1])
		if !ok {
			return Val{}, false
		}
		src = append([][]int(nil), src...)
		el, lo := args[0].Elems, args[0].Lo
		n := min(len(src), args[0].Hi-args[0].Lo)
		for i := 0; i < n; i++ {
			nw := make([]int, 8)
			for b := range nw {
				nw[b] = e.M.Ite(cond, src[i][b], el[lo+i][b])
			}
			el[lo+i] = nw
		}
		return e.Const(int64(n), 64, true), true
	}
	switch name {
	case "(*strings.Builder).WriteString", "(*bytes.Buffer).WriteString", "(*strings.Builder).Write", "(*bytes.Buffer).Write":
		b := builder()
		s, ok := e.segsOf(args[1])
		if !ok {
			unsupported("%s of a value that is not a string", name)
		}
		b.sym = append(append([]Seg(nil), b.sym...), s...)
		return Val{Kind: KTuple, Tuple: []Val{Opaque("n"), BoolVal(0)}}, true
	case "(*strings.Builder).WriteByte", "(*bytes.Buffer).WriteByte":
		b := builder()
		if args[1].Kind != KBits {
			unsupported("WriteByte of a non-integer")
		}
		b.sym = append(append([]Seg(nil), b.sym...), Seg{Alt{1, [][]int{e.extend(args[1], 8)}}})
		return BoolVal(0), true
	case "(*strings.Builder).WriteRune", "(*bytes.Buffer).WriteRune":
		b := builder()
		r, ok := constOf(args[1])
		if !ok || r < 0 || r >= 0x80 {
			// a symbolic rune below 0x80 is one byte
			if args[1].Kind == KBits {
				hi := 0
				for i := 7; i < len(args[1].Bits); i++ {
					hi = e.M.Or(hi, args[1].Bits[i])
				}
				if hi == 0 {
					b.sym = append(append([]Seg(nil), b.sym...), Seg{Alt{1, [][]int{e.extend(args[1], 8)}}})
					return Val{Kind: KTuple, Tuple: []Val{Opaque("n"), BoolVal(0)}}, true
				}
			}
			unsupported("WriteRune of a rune that may be outside ASCII")
		}
		b.sym = append(append([]Seg(nil), b.sym...), Seg{Alt{1, e.constBytes(string(rune(r)))}})
		return Val{Kind: KTuple, Tuple: []Val{Opaque("n"), BoolVal(0)}}, true
	case "(*strings.Builder).Grow", "(*bytes.Buffer).Grow":
		builder()
		return Opaque("void"), true
	case "(*strings.Builder).Reset", "(*bytes.Buffer).Reset":
		builder().sym = nil
		return Opaque("void"), true
	case "(*strings.Builder).String", "(*bytes.Buffer).String", "(*bytes.Buffer).Bytes":
		if len(args) == 0 || args[0].Kind != KCell || args[0].cell == nil {
			unsupported("builder method on a value that is not a local builder")
		}
		return Val{Kind: KSym, Segs: append([]Seg(nil), args[0].cell.sym...)}, true
	case "strconv.Itoa":
		if args[0].Kind != KBits {
			return Val{}, false
		}
		w := len(args[0].Bits)
		return e.formatted(args[0], func(v uint64) string { return strconv.FormatInt(asSigned(v, w), 10) }), true
	case "strconv.FormatInt", "strconv.FormatUint":
		base, ok := constOf(args[1])
		if args[0].Kind != KBits || !ok || base < 2 || base > 36 {
			return Val{}, false
		}
		w := len(args[0].Bits)
		if name == "strconv.FormatInt" {
			return e.formatted(args[0], func(v uint64) string { return strconv.FormatInt(asSigned(v, w), int(base)) }), true
		}
		return e.formatted(args[0], func(v uint64) string { return strconv.FormatUint(v, int(base)) }), true
	case "strconv.AppendInt", "strconv.AppendUint":
		base, ok := constOf(args[2])
		if args[1].Kind != KBits || !ok || base < 2 || base > 36 {
			return Val{}, false
		}
		w := len(args[1].Bits)
		var s Val
		if name == "strconv.AppendInt" {
			s = e.formatted(args[1], func(v uint64) string { return strconv.FormatInt(asSigned(v, w), int(base)) })
		} else {
			s = e.formatted(args[1], func(v uint64) string { return strconv.FormatUint(v, int(base)) })
		}
		return e.concat(args[0], s), true
	}
	if strings.HasPrefix(name, "slices.DeleteFunc[") && len(args) == 2 && e.ForcePath &&
		args[0].Kind == KSlice && args[0].cell != nil && args[0].cell.items != nil {
		// in place, as the library does it: the kept elements move to the
		// front, the vacated tail is zeroed; the predicate must be decided on
		// every element of this path
		var pf *ssa.Function
		var binds []Val
		switch {
		case args[1].Kind == KFunc:
			pf, binds = args[1].Fn, args[1].Binds
		case args[1].Kind == KOpaque && args[1].Fn != nil && len(args[1].Fn.Blocks) > 0:
			pf = args[1].Fn
		default:
			return Val{}, false
		}
		d := args[0]
		w := d.Lo
		for i := d.Lo; i < d.Hi; i++ {
			e.nextBinds = binds
			rs := e.call(pf, []Val{d.cell.items[i]})
			if len(rs) != 1 || rs[0].Kind != KBits || len(rs[0].Bits) != 1 {
				unsupported("predicate of %s does not return a Boolean", name)
			}
			here := cond
			if here == 0 {
				here = 1
			}
			yes := e.M.And(here, rs[0].Bits[0])
			no := e.M.And(here, e.M.Not(rs[0].Bits[0]))
			if yes != 0 && no != 0 {
				unsupported("predicate of %s is not decided on this path", name)
			}
			if yes == 0 {
				d.cell.items[w] = d.cell.items[i]
				w++
			}
		}
		for i := w; i < d.Hi; i++ {
			d.cell.items[i] = Val{Kind: KStr}
		}
		return Val{Kind: KSlice, cell: d.cell, Lo: d.Lo, Hi: w}, true
	}
	switch name {
	case "builtin.append":
		if len(args) == 2 && e.ForcePath && args[1].Kind == KSlice && args[1].cell != nil && args[1].cell.items != nil {
			// a slice of values that are not bytes, path mode: the language's
			// semantics — in place while the capacity lasts (the capacity of a
			// modelled backing array is its length), a fresh array otherwise
			src := args[1].cell.items[args[1].Lo:args[1].Hi]
			dst := args[0]
			switch {
			case dst.Kind == KSlice && dst.cell != nil && dst.cell.items != nil:
				if dst.Hi+len(src) <= len(dst.cell.items) {
					copy(dst.cell.items[dst.Hi:], src)
					return Val{Kind: KSlice, cell: dst.cell, Lo: dst.Lo, Hi: dst.Hi + len(src)}, true
				}
				all := append(append([]Val(nil), dst.cell.items[dst.Lo:dst.Hi]...), src...)
				return Val{Kind: KSlice, cell: &cell{items: all}, Lo: 0, Hi: len(all)}, true
			case dst.Kind == KOpaque && dst.Name == "nil", dst.Kind == KSlice && dst.Hi == dst.Lo && dst.Elems == nil:
				all := append([]Val(nil), src...)
				return Val{Kind: KSlice, cell: &cell{items: all}, Lo: 0, Hi: len(all)}, true
			}
		}
		if len(args) == 2 {
			if _, ok := e.segsOf(args[0]); ok {
				if _, ok := e.segsOf(args[1]); ok {
					if cond != 1 && false {
						return Val{}, false
					}
					return e.concat(args[0], args[1]), true
				}
			}
		}
	case "builtin.len":
		if len(args) == 1 && args[0].Kind == KSym {
			alts, err := e.Expand(args[0])
			if err == nil && len(alts) > 0 {
				n := len(alts[0].Bytes)
				for _, a := range alts {
					if len(a.Bytes) != n {
						unsupported("length of a string whose length is symbolic")
					}
				}
				return e.Const(int64(n), 64, true), true
			}
		}
	}
	return Val{}, false
}

// Guard turns an Unsupported panic into an error.
func Guard(f func()) (err error) { return guard(f) }

// guard turns an Unsupported panic into an error.
func guard(f func()) (err error) {
	defer func() {
		if r := recover(); r != nil {
			if u, ok := r.(*Unsupported); ok {
				err = u
				return
			}
			panic(r)
		}
	}()
	f()
	return nil
}

// Str is a constant string value.
func Str(s string) Val { return Val{Kind: KStr, Str: s} }

// Nil is the nil slice / pointer / function.
func Nil() Val { return Val{Kind: KOpaque, Name: "nil"} }

// Window is the slice [lo,hi) of a symbolic string or byte slice.
func Window(v Val, lo, hi int) Val {
	return Val{Kind: KSlice, Elems: v.Elems, Lo: v.Lo + lo, Hi: v.Lo + hi}
}

// Bytes makes a string value of the given symbolic bytes.
func Bytes(bs [][]int) Val { return Val{Kind: KSlice, Elems: bs, Lo: 0, Hi: len(bs)} }

// Formatted is format(x) for every value the bit vector can take.
func (e *Eval) Formatted(bits []int, format func(v uint64) string) (v Val, err error) {
	err = guard(func() { v = e.formatted(Val{Kind: KBits, Bits: bits}, format) })
	return
}

// Concat concatenates string values.
func (e *Eval) Concat(vs ...Val) (v Val, err error) {
	err = guard(func() {
		v = Val{Kind: KSym}
		for _, x := range vs {
			v = e.concat(v, x)
		}
	})
	return
}

// SameString compares two string values case by case.  It returns "" when
// they are equal for every input, and otherwise a description and the
// Boolean function of the inputs on which they differ.
func (e *Eval) SameString(got, want Val) (why string, diff int) {
	ga, err := e.Expand(got)
	if err != nil {
		return err.Error(), 1
	}
	wa, err := e.Expand(want)
	if err != nil {
		return err.Error(), 1
	}
	m := e.M
	cover := 0
	for _, g := range ga {
		cover = m.Or(cover, g.Cond)
	}
	if cover != 1 {
		return "the cases of the result do not cover every input", m.Not(cover)
	}
	for _, g := range ga {
		for _, w := range wa {
			j := m.And(g.Cond, w.Cond)
			if j == 0 {
				continue
			}
			if len(g.Bytes) != len(w.Bytes) {
				return "length " + strconv.Itoa(len(g.Bytes)) + " where " + strconv.Itoa(len(w.Bytes)) + " is expected", j
			}
			for i := range g.Bytes {
				for b := 0; b < 8; b++ {
					if d := m.And(j, m.Xor(g.Bytes[i][b], w.Bytes[i][b])); d != 0 {
						return "byte " + strconv.Itoa(i) + " differs", d
					}
				}
			}
		}
	}
	return "", 0
}
