// Package boolfn is engine E2: it computes the exact Boolean function denoted by
// a loop-free Go function over the bits of its fixed-size inputs, as a reduced
// ordered BDD.  It is a dataflow analysis over the SSA DAG whose lattice
// elements are Boolean functions (merged at joins), not an execution.
package boolfn

// BDD is a manager of reduced ordered binary decision diagrams.  Node 0 is
// false, node 1 is true; variables are ordered by index.
type BDD struct {
	nodes []node
	uniq  map[nodeKey]int32
	memo  map[uint64]int32
}

type node struct{ v, lo, hi int }

// nodeKey packs a node for hashing (variables below 2^24, nodes below 2^31).
type nodeKey struct {
	v      int32
	lo, hi int32
}

// MaxNodes bounds the size of one manager (about 100 bytes per node with its
// tables).
var MaxNodes = 12 << 20

// New returns an empty manager.
func New() *BDD {
	return &BDD{nodes: []node{{-1, 0, 0}, {-1, 1, 1}}, uniq: make(map[nodeKey]int32, 1<<12), memo: make(map[uint64]int32, 1<<14)}
}

// Size is the number of nodes allocated.
func (m *BDD) Size() int { return len(m.nodes) }

func (m *BDD) mk(v, lo, hi int) int {
	if lo == hi {
		return lo
	}
	k := nodeKey{int32(v), int32(lo), int32(hi)}
	if id, ok := m.uniq[k]; ok {
		return int(id)
	}
	if len(m.nodes) >= MaxNodes {
		// a function that does not fit is undecided, never an out-of-memory kill
		panic(&Unsupported{"the Boolean functions grow beyond the node budget of the BDD manager"})
	}
	m.nodes = append(m.nodes, node{v, lo, hi})
	m.uniq[k] = int32(len(m.nodes) - 1)
	return len(m.nodes) - 1
}

// Var is the function "variable v is 1".
func (m *BDD) Var(v int) int { return m.mk(v, 0, 1) }

func (m *BDD) top(a int) int {
	if a < 2 {
		return 1 << 30
	}
	return m.nodes[a].v
}

func (m *BDD) apply(op, a, b int) int {
	switch op {
	case 0: // and
		if a == 0 || b == 0 {
			return 0
		}
		if a == 1 {
			return b
		}
		if b == 1 || a == b {
			return a
		}
	case 1: // or
		if a == 1 || b == 1 {
			return 1
		}
		if a == 0 {
			return b
		}
		if b == 0 || a == b {
			return a
		}
	case 2: // xor
		if a == 0 {
			return b
		}
		if b == 0 {
			return a
		}
		if a == b {
			return 0
		}
	}
	if a > b { // commutative
		a, b = b, a
	}
	k := uint64(op)<<62 | uint64(a)<<31 | uint64(b)
	if r, ok := m.memo[k]; ok {
		return int(r)
	}
	v := min(m.top(a), m.top(b))
	al, ah, bl, bh := a, a, b, b
	if m.top(a) == v {
		al, ah = m.nodes[a].lo, m.nodes[a].hi
	}
	if m.top(b) == v {
		bl, bh = m.nodes[b].lo, m.nodes[b].hi
	}
	r := m.mk(v, m.apply(op, al, bl), m.apply(op, ah, bh))
	if len(m.memo) > MaxNodes {
		clear(m.memo)
	}
	m.memo[k] = int32(r)
	return r
}

func (m *BDD) And(a, b int) int { return m.apply(0, a, b) }
func (m *BDD) Or(a, b int) int  { return m.apply(1, a, b) }
func (m *BDD) Xor(a, b int) int { return m.apply(2, a, b) }
func (m *BDD) Not(a int) int    { return m.apply(2, a, 1) }

// Ite is if c then a else b.
func (m *BDD) Ite(c, a, b int) int { return m.Or(m.And(c, a), m.And(m.Not(c), b)) }

// Lit is variable v or its negation.
func (m *BDD) Lit(v int, pos bool) int {
	if pos {
		return m.Var(v)
	}
	return m.Not(m.Var(v))
}

// Witness returns one satisfying assignment (variable -> value) of f != 0.
func (m *BDD) Witness(f int) map[int]bool {
	out := map[int]bool{}
	for f > 1 {
		n := m.nodes[f]
		if n.hi != 0 {
			out[n.v] = true
			f = n.hi
		} else {
			out[n.v] = false
			f = n.lo
		}
	}
	return out
}

// Cubes enumerates the paths to true of f as partial assignments, at most max.
func (m *BDD) Cubes(f, max int) []map[int]bool {
	var out []map[int]bool
	var walk func(f int, cur map[int]bool)
	walk = func(f int, cur map[int]bool) {
		if f == 0 || len(out) >= max {
			return
		}
		if f == 1 {
			c := map[int]bool{}
			for k, v := range cur {
				c[k] = v
			}
			out = append(out, c)
			return
		}
		n := m.nodes[f]
		cur[n.v] = false
		walk(n.lo, cur)
		cur[n.v] = true
		walk(n.hi, cur)
		delete(cur, n.v)
	}
	walk(f, map[int]bool{})
	return out
}

// SatCount returns the number of assignments of variables [0,nvars) that
// satisfy f, as a float (exact up to 2^53, indicative beyond).
func (m *BDD) SatCount(f, nvars int) float64 {
	memo := map[int]float64{}
	pow := func(n int) float64 {
		r := 1.0
		for i := 0; i < n; i++ {
			r *= 2
		}
		return r
	}
	var cnt func(f int) (float64, int) // count below node, node's var level
	cnt = func(f int) (float64, int) {
		if f == 0 {
			return 0, nvars
		}
		if f == 1 {
			return 1, nvars
		}
		n := m.nodes[f]
		if c, ok := memo[f]; ok {
			return c, n.v
		}
		lc, lv := cnt(n.lo)
		hc, hv := cnt(n.hi)
		c := lc*pow(lv-n.v-1) + hc*pow(hv-n.v-1)
		memo[f] = c
		return c, n.v
	}
	c, v := cnt(f)
	return c * pow(v)
}
