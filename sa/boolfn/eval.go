package boolfn

import (
	"fmt"
	"os"
	"go/constant"
	"go/token"
	"go/types"
	"strings"

	"golang.org/x/tools/go/ssa"
)

// Kind of an abstract value.
type Kind int

const (
	KBits    Kind = iota // integer or bool as a vector of Boolean functions, LSB first
	KArray               // fixed array of bytes, each a bit vector
	KArrPtr              // pointer to a local array cell
	KElemPtr             // pointer to one element of a local array cell
	KSlice               // window [Lo,Hi) of an array
	KStr                 // constant string
	KOpaque              // value only usable through Eval.OnCall
	KCell                // pointer to a local scalar cell
	KSym                 // string of symbolic length (sym.go)
	KFunc                // closure: function and bindings
	KTuple               // results of a call
	KChoice              // alternatives of a library call, one per path (path mode)
)

// Val is an abstract value.
type Val struct {
	Kind   Kind
	Bits   []int
	Signed bool
	Elems  [][]int // KArray, KSlice (the underlying array)
	Lo, Hi int
	Str    string
	Name   string // KOpaque
	Segs   []Seg          // KSym
	Fn     *ssa.Function  // KFunc
	Binds  []Val          // KFunc
	Tuple  []Val          // KTuple
	Alts   []ChoiceAlt    // KChoice
	cell   *cell
	idx    int
}

type cell struct {
	arr   [][]int
	val   *Val
	set   bool
	items []Val // array of values that are not bytes (strings, ...)
	pos   int   // position of a string iterator
	sym   []Seg // contents of a strings.Builder / bytes.Buffer
}

// Eval evaluates loop-free functions.
type Eval struct {
	M *BDD
	// OnCall gives meaning to calls the evaluator cannot enter (methods on
	// opaque values, library predicates).  ok=false means unsupported.
	OnCall func(name string, call *ssa.CallCommon, args []Val) (Val, bool)
	// InScope says whether a static callee may be entered.
	InScope func(fn *ssa.Function) bool
	Entered map[string]bool // functions evaluated (for the evidence)
	// ErrorsAsBits: results of type error are reduced to the bit "non-nil";
	// struct values built for them are not modelled (stores into them vanish)
	ErrorsAsBits bool
	// ForcePath evaluates every function path by path, which library calls
	// with several outcomes (strings.Cut, IndexByte, ...) need
	ForcePath bool
	// Override gives meaning to calls before anything else is tried (also to
	// functions of the module that would otherwise be entered)
	Override func(name string, call *ssa.CallCommon, args []Val) (Val, bool)
	// OnTypeAssert decides a type assertion (the value, or the tuple of value
	// and ok for the comma-ok form) in the scenario the caller evaluates.
	OnTypeAssert func(v *ssa.TypeAssert, x Val) (Val, bool)
	// NoMerge disables the merging of pure branch regions in path mode
	NoMerge bool
	// Assume restricts the evaluation to the inputs on which it holds (0: no
	// restriction); results are meaningful only there
	Assume int
	// Steps is the number of blocks one function evaluation may execute
	// (default 20000)
	Steps int
	fresh     int // next fresh variable for unknown library outcomes
	depth        int
	globals      map[*ssa.Global]*Val // read-only package-level tables (globals.go)
	outerCond    int   // condition under which the current invocation runs
	nextBinds    []Val // bindings of the closure about to be entered
	foldMemo map[[32]int][]int
}

// Unsupported is the error for constructs outside the grammar (=> undecided).
type Unsupported struct{ Msg string }

func (u *Unsupported) Error() string { return u.Msg }

func unsupported(f string, a ...any) { panic(&Unsupported{fmt.Sprintf(f, a...)}) }

// ArrayInput makes an array of n bytes whose bits are variables
// base .. base+8n-1, most significant bit of byte 0 first (network order).
func (e *Eval) ArrayInput(base, n int) Val {
	el := make([][]int, n)
	for i := range el {
		bits := make([]int, 8)
		for b := 0; b < 8; b++ { // bits[b] = bit b (LSB first) = variable base+8i+(7-b)
			bits[b] = e.M.Var(base + 8*i + (7 - b))
		}
		el[i] = bits
	}
	return Val{Kind: KArray, Elems: el}
}

// IntInput makes a width-bit integer whose bits are variables base.., MSB first.
func (e *Eval) IntInput(base, width int, signed bool) Val {
	bits := make([]int, width)
	for b := 0; b < width; b++ {
		bits[b] = e.M.Var(base + (width - 1 - b))
	}
	return Val{Kind: KBits, Bits: bits, Signed: signed}
}

// BoolVal wraps a Boolean function as a value.
func BoolVal(f int) Val { return Val{Kind: KBits, Bits: []int{f}} }

// Opaque makes an opaque value.
func Opaque(name string) Val { return Val{Kind: KOpaque, Name: name} }

// Const makes a constant integer of the width.
func (e *Eval) Const(v int64, width int, signed bool) Val {
	bits := make([]int, width)
	for b := 0; b < width; b++ {
		if b < 64 && (v>>uint(b))&1 == 1 || b >= 64 && v < 0 {
			bits[b] = 1
		}
	}
	return Val{Kind: KBits, Bits: bits, Signed: signed}
}

func widthOf(t types.Type) (int, bool, bool) {
	b, ok := t.Underlying().(*types.Basic)
	if !ok {
		return 0, false, false
	}
	switch b.Kind() {
	case types.Bool, types.UntypedBool:
		return 1, false, true
	case types.Int8:
		return 8, true, true
	case types.Uint8:
		return 8, false, true
	case types.Int16:
		return 16, true, true
	case types.Uint16:
		return 16, false, true
	case types.Int32, types.UntypedRune:
		return 32, true, true
	case types.Uint32:
		return 32, false, true
	case types.Int, types.Int64, types.UntypedInt:
		return 64, true, true
	case types.Uint, types.Uint64, types.Uintptr:
		return 64, false, true
	}
	return 0, false, false
}

// Call evaluates fn on the arguments and returns its results.  The error is
// *Unsupported when the function is outside the loop-free grammar.
func (e *Eval) Call(fn *ssa.Function, args []Val) (res []Val, err error) {
	defer func() {
		if r := recover(); r != nil {
			if u, ok := r.(*Unsupported); ok {
				err = u
				return
			}
			panic(r)
		}
	}()
	e.outerCond = 1
	if e.Assume != 0 {
		e.outerCond = e.Assume
	}
	return e.call(fn, args), nil
}

func (e *Eval) call(fn *ssa.Function, args []Val) []Val {
	if e.depth > 8 {
		unsupported("call depth exceeded at %s", fn)
	}
	if len(fn.Blocks) == 0 {
		unsupported("no body for %s", fn)
	}
	e.depth++
	defer func() { e.depth-- }()
	if e.Entered != nil {
		e.Entered[fn.String()] = true
	}
	m := e.M
	loopy := e.ForcePath
	for _, b := range fn.Blocks {
		for _, p := range b.Preds {
			if b.Dominates(p) {
				// a function with loops is evaluated path by path (no merging at
				// joins), every loop being unrolled as far as its exit conditions
				// stay satisfiable; the step budget turns unbounded loops into
				// "unsupported"
				loopy = true
			}
		}
	}
	// deferred calls of this invocation, in registration order (the recover
	// block is reached only through a panic, which is outside the grammar)
	type deferRec struct {
		call *ssa.CallCommon
		fn   Val
		args []Val
	}
	var defers []deferRec
	vals := map[ssa.Value]Val{}
	if len(args) != len(fn.Params) {
		unsupported("arity mismatch calling %s", fn.Name())
	}
	for i, p := range fn.Params {
		vals[p] = args[i]
	}
	if len(fn.FreeVars) > 0 {
		if len(e.nextBinds) != len(fn.FreeVars) {
			unsupported("closure %s entered without its bindings", fn.Name())
		}
		for i, fv := range fn.FreeVars {
			vals[fv] = e.nextBinds[i]
		}
	}
	e.nextBinds = nil
	outer := e.outerCond
	reach := map[*ssa.BasicBlock]int{fn.Blocks[0]: 1}
	edge := map[[2]*ssa.BasicBlock]int{}
	addEdge := func(a, b *ssa.BasicBlock, f int) {
		k := [2]*ssa.BasicBlock{a, b}
		edge[k] = m.Or(edge[k], f)
	}
	isErrType := func(t types.Type) bool { return e.ErrorsAsBits && t.String() == "error" }
	get := func(v ssa.Value) Val {
		if c, ok := v.(*ssa.Const); ok {
			if c.Value == nil && isErrType(c.Type()) {
				return BoolVal(0) // the nil error
			}
			return e.constVal(c)
		}
		if f, ok := v.(*ssa.Function); ok {
			return Val{Kind: KOpaque, Name: "func:" + f.String(), Fn: f}
		}
		if g, ok := v.(*ssa.Global); ok {
			if gv, isTab := e.globalValue(g); isTab {
				return gv
			}
		}
		if g, ok := v.(*ssa.Global); ok && (e.ErrorsAsBits || (g.Pkg != nil && g.Pkg.Pkg.Path() == "encoding/binary")) {
			return Val{Kind: KOpaque, Name: "global:" + g.Name()}
		}
		bv, ok := vals[v]
		if !ok {
			unsupported("unsupported value %s = %v in %s", v.Name(), v, fn.Name())
		}
		return bv
	}
	type fieldKey struct {
		x ssa.Value
		f int
	}
	fieldCells := map[fieldKey]*cell{}
	var results []Val
	var retAlts []ChoiceAlt // per return: the condition and the results (path mode)
	strSet := map[int]bool{}
	strConflict := false
	nres := fn.Signature.Results().Len()
	isErrResult := func(i int) bool {
		return e.ErrorsAsBits && i < nres && fn.Signature.Results().At(i).Type().String() == "error"
	}
	mergeResult := func(cond int, rs []Val) {
		// an error result is the Boolean "non-nil"
		for i := range rs {
			if isErrResult(i) && rs[i].Kind != KBits {
				if rs[i].Kind == KOpaque && rs[i].Name == "nil" {
					rs[i] = BoolVal(0)
				} else {
					rs[i] = BoolVal(1)
				}
			}
		}
		if results == nil {
			results = make([]Val, nres)
			for i := range rs {
				z := rs[i]
				if z.Kind == KBits {
					z.Bits = make([]int, len(rs[i].Bits))
				}
				if z.Kind == KArray {
					el := make([][]int, len(z.Elems))
					for k := range el {
						el[k] = make([]int, len(z.Elems[k]))
					}
					z.Elems = el
				}
				results[i] = z
			}
		}
		for i := range rs {
			if rs[i].Kind == KArray {
				// a value result selected by the path condition; the first array
				// seen fixes the shape (an opaque zero value came first: adopt)
				if results[i].Kind != KArray {
					el := make([][]int, len(rs[i].Elems))
					for k := range el {
						el[k] = make([]int, len(rs[i].Elems[k]))
					}
					results[i] = Val{Kind: KArray, Elems: el}
				}
				if len(results[i].Elems) == len(rs[i].Elems) {
					for k := range rs[i].Elems {
						for b := range rs[i].Elems[k] {
							results[i].Elems[k][b] = m.Or(results[i].Elems[k][b], m.And(cond, rs[i].Elems[k][b]))
						}
					}
				}
				continue
			}
			if rs[i].Kind == KSym || rs[i].Kind == KStr || rs[i].Kind == KSlice {
				// strings are not merged: the returns that can be reached must
				// come one per evaluation (the caller fixes the scenario)
				if cond == 0 {
					continue
				}
				if rs[i].Kind == KSlice && rs[i].cell != nil && rs[i].cell.items != nil {
					// a list: frozen as it is now (the storage may be written
					// again on another path)
					fr := append([]Val(nil), rs[i].cell.items[rs[i].Lo:rs[i].Hi]...)
					rs[i] = Val{Kind: KSlice, cell: &cell{items: fr}, Lo: 0, Hi: len(fr)}
				}
				// the first string stands; a second, different one would need a
				// string merge
				if !strSet[i] {
					results[i], strSet[i] = rs[i], true
				} else if !sameString(results[i], rs[i]) {
					if !loopy {
						unsupported("different string results on different paths of %s", fn.Name())
					}
					strConflict = true
				}
				continue
			}
			if rs[i].Kind != KBits {
				// other non-bit results (opaque) are only supported when all
				// returns agree structurally; keep the first.
				continue
			}
			if results[i].Kind != KBits {
				results[i] = Val{Kind: KBits, Bits: make([]int, len(rs[i].Bits)), Signed: rs[i].Signed}
			}
			if len(results[i].Bits) != len(rs[i].Bits) {
				unsupported("result width mismatch in %s", fn.Name())
			}
			for b := range rs[i].Bits {
				results[i].Bits[b] = m.Or(results[i].Bits[b], m.And(cond, rs[i].Bits[b]))
			}
		}
	}
	// constIdx also accepts a computed integer all of whose bits are constants
	// (the loop counter of an unrolled loop)
	constIdx := func(v ssa.Value) (int, bool) {
		if i, ok := constIdx(v); ok {
			return i, true
		}
		x, ok := vals[v]
		if !ok || x.Kind != KBits || len(x.Bits) == 0 {
			return 0, false
		}
		n := 0
		for i, b := range x.Bits {
			switch b {
			case 0:
			case 1:
				if i >= 31 {
					return 0, false
				}
				n |= 1 << uint(i)
			default:
				return 0, false
			}
		}
		return n, true
	}
	var curPred *ssa.BasicBlock
	execBlock := func(b *ssa.BasicBlock, from int) (int, []ChoiceAlt) {
		for idx := from; idx < len(b.Instrs); idx++ {
			ins := b.Instrs[idx]
			switch v := ins.(type) {
			case *ssa.DebugRef:
			case *ssa.Alloc:
				et := v.Type().Underlying().(*types.Pointer).Elem()
				if arr, ok := et.Underlying().(*types.Array); ok {
					if w, _, isInt := widthOf(arr.Elem()); !isInt || w != 8 {
						// an array of values that are not bytes (the strings of a
						// variadic call)
						vals[v] = Val{Kind: KArrPtr, cell: &cell{items: make([]Val, arr.Len())}}
						continue
					}
					c := &cell{arr: make([][]int, arr.Len())}
					for i := range c.arr {
						c.arr[i] = make([]int, 8)
					}
					vals[v] = Val{Kind: KArrPtr, cell: c}
				} else {
					vals[v] = Val{Kind: KCell, cell: &cell{}}
				}
			case *ssa.Store:
				a := get(v.Addr)
				x := get(v.Val)
				if reach[b] != 1 && reach[b] != m.Or(reach[b], 0) {
					// stores under a condition need a memory merge; keep it simple
				}
				switch a.Kind {
				case KArrPtr:
					if x.Kind != KArray {
						unsupported("store of non-array into array cell in %s", fn.Name())
					}
					e.condStoreArr(a.cell, x.Elems, reach[b])
				case KElemPtr:
					if a.idx < 0 {
						// a symbolic index: the element it names on each input
						// is written, the others keep their bytes
						if x.Kind != KBits {
							unsupported("store of non-integer into array element in %s", fn.Name())
						}
						here := m.And(outer, reach[b])
						covered := 0
						for k := 0; a.Lo+k < a.Hi; k++ {
							kc := e.Const(int64(k), len(a.Bits), false)
							eq := 1
							for j := range a.Bits {
								eq = m.And(eq, m.Not(m.Xor(a.Bits[j], kc.Bits[j])))
							}
							if m.And(here, eq) == 0 {
								continue
							}
							covered = m.Or(covered, eq)
							old := a.cell.arr[a.Lo+k]
							nw := make([]int, 8)
							sel := m.And(reach[b], eq)
							for i := range nw {
								nw[i] = m.Ite(sel, x.Bits[i], old[i])
							}
							a.cell.arr[a.Lo+k] = nw
						}
						if m.And(here, m.Not(covered)) != 0 {
							unsupported("store through an index that may be out of range in %s", fn.Name())
						}
						break
					}
					if a.cell.items != nil {
						if !loopy && reach[b] != 1 {
							// path mode is on one path; merging would need a memory merge
							unsupported("conditional store into an array of values in %s", fn.Name())
						}
						a.cell.items[a.idx] = x
						break
					}
					if x.Kind != KBits {
						unsupported("store of non-integer into array element in %s", fn.Name())
					}
					old := a.cell.arr[a.idx]
					nw := make([]int, 8)
					for i := range nw {
						nw[i] = m.Ite(reach[b], x.Bits[i], old[i])
					}
					a.cell.arr[a.idx] = nw
				case KCell:
					if x.Kind != KBits && e.ErrorsAsBits {
						xv := x
						a.cell.val, a.cell.set = &xv, true
						break
					}
					if a.cell.set && reach[b] != 1 {
						if a.cell.val.Kind == KBits && x.Kind == KBits && len(a.cell.val.Bits) == len(x.Bits) {
							nb := make([]int, len(x.Bits))
							for i := range nb {
								nb[i] = m.Ite(reach[b], x.Bits[i], a.cell.val.Bits[i])
							}
							x.Bits = nb
						} else {
							unsupported("conditional store of a non-integer in %s", fn.Name())
						}
					}
					xv := x
					a.cell.val, a.cell.set = &xv, true
				default:
					unsupported("unsupported store %s in %s", v, fn.Name())
				}
			case *ssa.FieldAddr:
				// a field of a local struct that is only built to be returned as an
				// error (or of any value the evaluation does not model): a sink
				if !e.ErrorsAsBits {
					unsupported("unsupported instruction %T %s in %s", ins, ins, fn.Name())
				}
				// one cell per (object, field) of this invocation, so that what is
				// stored through one address is read back through another
				fk := fieldKey{v.X, v.Field}
				fc := fieldCells[fk]
				if fc == nil {
					fc = &cell{}
					fieldCells[fk] = fc
				}
				vals[v] = Val{Kind: KCell, cell: fc}
			case *ssa.Lookup:
				a := get(v.X)
				i, ok := constIdx(v.Index)
				if tb, isTab := e.tableOf(a); isTab && !v.CommaOk {
					if ix := get(v.Index); ix.Kind == KBits {
						r, inRange := e.tableByteUnder(tb, ix.Bits, m.And(outer, reach[b]))
						if !inRange {
							unsupported("index of %s may be out of range in %s", v, fn.Name())
						}
						vals[v] = Val{Kind: KBits, Bits: r}
						continue
					}
				}
				if !ok || a.Kind != KSlice || v.CommaOk {
					unsupported("unsupported lookup %s in %s", v, fn.Name())
				}
				if a.Lo+i >= a.Hi || i < 0 {
					unsupported("index out of range in %s", fn.Name())
				}
				vals[v] = Val{Kind: KBits, Bits: a.Elems[a.Lo+i]}
			case *ssa.IndexAddr:
				a := get(v.X)
				i, ok := constIdx(v.Index)
				if !ok && a.Kind == KArrPtr && a.cell.items == nil {
					// a symbolic index into an array of bytes: only loads through it
					// are supported (a table lookup)
					if ix := get(v.Index); ix.Kind == KBits {
						vals[v] = Val{Kind: KElemPtr, cell: a.cell, idx: -1, Bits: ix.Bits, Lo: 0, Hi: len(a.cell.arr)}
						continue
					}
				}
				if !ok && a.Kind == KSlice && (a.cell == nil || a.cell.items == nil) {
					// the same through a window of bytes
					if ix := get(v.Index); ix.Kind == KBits {
						vals[v] = Val{Kind: KElemPtr, cell: &cell{arr: a.Elems}, idx: -1, Bits: ix.Bits, Lo: a.Lo, Hi: a.Hi}
						continue
					}
				}
				if !ok {
					unsupported("non-constant index %s in %s", v, fn.Name())
				}
				switch a.Kind {
				case KArrPtr:
					if i < 0 || i >= max(len(a.cell.arr), len(a.cell.items)) {
						unsupported("index out of range in %s", fn.Name())
					}
					vals[v] = Val{Kind: KElemPtr, cell: a.cell, idx: i}
				case KSlice:
					if a.Lo+i >= a.Hi || i < 0 {
						unsupported("index out of range in %s", fn.Name())
					}
					if a.cell != nil && a.cell.items != nil {
						vals[v] = Val{Kind: KElemPtr, cell: a.cell, idx: a.Lo + i}
						continue
					}
					c := &cell{arr: a.Elems}
					vals[v] = Val{Kind: KElemPtr, cell: c, idx: a.Lo + i}
				default:
					unsupported("unsupported indexaddr %s in %s", v, fn.Name())
				}
			case *ssa.Index:
				a := get(v.X)
				i, ok := constIdx(v.Index)
				if tb, isTab := e.tableOf(a); isTab && ok && a.Kind == KStr {
					if i < 0 || i >= len(tb) {
						unsupported("index out of range in %s", fn.Name())
					}
					vals[v] = Val{Kind: KBits, Bits: tb[i]}
					continue
				}
				if tb, isTab := e.tableOf(a); isTab && !ok {
					if ix := get(v.Index); ix.Kind == KBits {
						r, inRange := e.tableByteUnder(tb, ix.Bits, m.And(outer, reach[b]))
						if !inRange {
							unsupported("index of %s may be out of range in %s", v, fn.Name())
						}
						vals[v] = Val{Kind: KBits, Bits: r}
						continue
					}
				}
				if ok && a.Kind == KSlice && i >= 0 && a.Lo+i < a.Hi {
					// a byte of a symbolic string
					vals[v] = Val{Kind: KBits, Bits: a.Elems[a.Lo+i]}
					continue
				}
				if !ok || a.Kind != KArray || i < 0 || i >= len(a.Elems) {
					unsupported("unsupported index %s in %s", v, fn.Name())
				}
				vals[v] = Val{Kind: KBits, Bits: a.Elems[i]}
			case *ssa.UnOp:
				x := get(v.X)
				switch {
				case v.Op == token.MUL && x.Kind == KElemPtr && x.cell.items != nil:
					if x.cell.items[x.idx].Kind == KBits && x.cell.items[x.idx].Bits == nil {
						unsupported("load of an unset array element in %s", fn.Name())
					}
					vals[v] = x.cell.items[x.idx]
				case v.Op == token.MUL && x.Kind == KElemPtr && x.idx < 0:
					r, inRange := e.tableByteUnder(x.cell.arr[x.Lo:x.Hi], x.Bits, m.And(outer, reach[b]))
					if !inRange {
						unsupported("index of %s may be out of range in %s", v, fn.Name())
					}
					vals[v] = Val{Kind: KBits, Bits: r}
				case v.Op == token.MUL && x.Kind == KElemPtr:
					vals[v] = Val{Kind: KBits, Bits: x.cell.arr[x.idx]}
				case v.Op == token.MUL && x.Kind == KArrPtr:
					el := make([][]int, len(x.cell.arr))
					copy(el, x.cell.arr)
					vals[v] = Val{Kind: KArray, Elems: el}
				case v.Op == token.MUL && x.Kind == KOpaque && (e.ErrorsAsBits || strings.HasPrefix(x.Name, "global:")):
					if isErrType(v.Type()) {
						vals[v] = BoolVal(1) // a package-level error value
					} else {
						vals[v] = Val{Kind: KOpaque, Name: "load:" + x.Name}
					}
				case v.Op == token.MUL && x.Kind == KCell && x.cell.set && x.cell.val.Kind != KBits:
					vals[v] = *x.cell.val
				case v.Op == token.MUL && x.Kind == KCell:
					if !x.cell.set && isErrType(v.Type()) {
						vals[v] = BoolVal(0) // the nil error
					} else if !x.cell.set {
						// zero value
						w, s, ok := widthOf(v.Type())
						if _, isStruct := v.Type().Underlying().(*types.Struct); !ok && isStruct {
							// the zero value of a struct nothing was stored into
							vals[v] = Val{Kind: KOpaque, Name: "nil"}
							continue
						}
						if !ok {
							unsupported("load of unset cell in %s", fn.Name())
						}
						vals[v] = e.Const(0, w, s)
					} else {
						vals[v] = *x.cell.val
					}
				case v.Op == token.NOT && x.Kind == KBits && len(x.Bits) == 1:
					vals[v] = BoolVal(m.Not(x.Bits[0]))
				case v.Op == token.XOR && x.Kind == KBits:
					nb := make([]int, len(x.Bits))
					for i := range nb {
						nb[i] = m.Not(x.Bits[i])
					}
					vals[v] = Val{Kind: KBits, Bits: nb, Signed: x.Signed}
				case v.Op == token.SUB && x.Kind == KBits:
					zero := e.Const(0, len(x.Bits), x.Signed)
					vals[v] = Val{Kind: KBits, Bits: e.sub(zero.Bits, x.Bits), Signed: x.Signed}
				default:
					unsupported("unsupported unop %s in %s", v, fn.Name())
				}
			case *ssa.Slice:
				a := get(v.X)
				var el [][]int
				lo, hi := 0, 0
				var ic *cell
				switch a.Kind {
				case KArrPtr:
					if a.cell.items != nil {
						ic, hi = a.cell, len(a.cell.items)
						break
					}
					// the window shares the array's storage
					el = a.cell.arr
					hi = len(el)
				case KSlice:
					el, lo, hi = a.Elems, a.Lo, a.Hi
					if a.cell != nil && a.cell.items != nil {
						ic = a.cell
					}
				case KStr:
					el, hi = e.constBytes(a.Str), len(a.Str)
				default:
					unsupported("unsupported slice %s in %s", v, fn.Name())
				}
				base := lo
				if v.Low != nil {
					i, ok := constIdx(v.Low)
					if !ok {
						// a symbolic lower bound: one path per feasible value
						lv := get(v.Low)
						_, hok := constIdx(v.High)
						if lv.Kind != KBits || ic != nil || el == nil || a.Kind == KStr || (v.High != nil && !hok) || !loopy {
							unsupported("non-constant slice bound in %s", fn.Name())
						}
						top := hi
						if v.High != nil {
							hc, _ := constIdx(v.High)
							top = base + hc
						}
						if top > len(el) || top < base {
							unsupported("slice bounds out of range in %s", fn.Name())
						}
						here := m.And(outer, reach[b])
						var alts []ChoiceAlt
						covered := 0
						for k := 0; base+k <= top; k++ {
							eq := 1
							kc := e.Const(int64(k), len(lv.Bits), lv.Signed)
							for j := range lv.Bits {
								eq = m.And(eq, m.Not(m.Xor(lv.Bits[j], kc.Bits[j])))
							}
							if m.And(here, eq) == 0 {
								continue
							}
							covered = m.Or(covered, eq)
							alts = append(alts, ChoiceAlt{Cond: eq, Val: Val{Kind: KSlice, Elems: el, Lo: base + k, Hi: top}})
						}
						if m.And(here, m.Not(covered)) != 0 {
							unsupported("slice bounds possibly out of range in %s", fn.Name())
						}
						if len(alts) == 0 {
							vals[v] = Val{Kind: KSlice, Elems: el, Lo: top, Hi: top}
							continue
						}
						return idx, alts
					}
					lo = base + i
				}
				if v.High != nil {
					i, ok := constIdx(v.High)
					if !ok {
						unsupported("non-constant slice bound in %s", fn.Name())
					}
					hi = base + i
				}
				if ic != nil {
					if lo < 0 || lo > hi || hi > len(ic.items) {
						unsupported("slice bounds out of range in %s", fn.Name())
					}
					vals[v] = Val{Kind: KSlice, cell: ic, Lo: lo, Hi: hi}
					continue
				}
				if lo < 0 || lo > hi || hi > len(el) {
					unsupported("slice bounds out of range in %s", fn.Name())
				}
				if a.Kind == KStr {
					vals[v] = Val{Kind: KStr, Str: a.Str[lo:hi]}
					continue
				}
				vals[v] = Val{Kind: KSlice, Elems: el, Lo: lo, Hi: hi}
			case *ssa.Convert:
				x := get(v.X)
				if x.Kind == KBits {
					w, s, ok := widthOf(v.Type())
					if !ok {
						unsupported("unsupported conversion %s in %s", v, fn.Name())
					}
					vals[v] = Val{Kind: KBits, Bits: e.extend(x, w), Signed: s}
				} else {
					vals[v] = x // []byte -> string
				}
			case *ssa.SliceToArrayPointer:
				x := get(v.X)
				n := int(v.Type().Underlying().(*types.Pointer).Elem().Underlying().(*types.Array).Len())
				if x.Kind != KSlice || x.Hi-x.Lo < n {
					unsupported("unsupported slice-to-array conversion in %s", fn.Name())
				}
				c := &cell{arr: make([][]int, n)}
				copy(c.arr, x.Elems[x.Lo:x.Lo+n])
				vals[v] = Val{Kind: KArrPtr, cell: c}
			case *ssa.ChangeType:
				vals[v] = get(v.X)
			case *ssa.ChangeInterface:
				vals[v] = get(v.X)
			case *ssa.MakeInterface:
				if isErrType(v.Type()) {
					vals[v] = BoolVal(1) // a non-nil error
				} else {
					vals[v] = get(v.X)
				}
			case *ssa.BinOp:
				vals[v] = e.binop(fn, v, get(v.X), get(v.Y))
			case *ssa.Phi:
				if curPred != nil {
					// path mode: the predecessor is known
					for i, p := range b.Preds {
						if p == curPred {
							vals[v] = get(v.Edges[i])
						}
					}
					continue
				}
				var out Val
				first := true
				for i, ed := range v.Edges {
					ec := edge[[2]*ssa.BasicBlock{b.Preds[i], b}]
					if ec == 0 {
						continue
					}
					x := get(ed)
					if x.Kind != KBits {
						if first {
							out, first = x, false
							continue
						}
						// arrays of the same shape (addresses, prefixes) are
						// selected element by element; the zero value of such a
						// struct is the array of zeros
						zeroLike := func(o Val) Val {
							z := Val{Kind: KArray, Elems: make([][]int, len(o.Elems))}
							for j := range o.Elems {
								z.Elems[j] = make([]int, len(o.Elems[j]))
							}
							return z
						}
						_, isStruct := v.Type().Underlying().(*types.Struct)
						if isStruct && x.Kind == KOpaque && x.Name == "nil" && out.Kind == KArray {
							x = zeroLike(out)
						}
						if isStruct && out.Kind == KOpaque && out.Name == "nil" && x.Kind == KArray {
							// the earlier edges all carried the zero value
							out = zeroLike(x)
						}
						if x.Kind == KArray && out.Kind == KArray && len(x.Elems) == len(out.Elems) {
							ne := make([][]int, len(x.Elems))
							same := true
							for j := range x.Elems {
								if len(x.Elems[j]) != len(out.Elems[j]) {
									same = false
									break
								}
								ne[j] = make([]int, len(x.Elems[j]))
								for k := range ne[j] {
									ne[j][k] = m.Ite(ec, x.Elems[j][k], out.Elems[j][k])
								}
							}
							if same {
								out = Val{Kind: KArray, Elems: ne}
								continue
							}
						}
						unsupported("phi of non-integer values (%d/%d, %d/%d elements) in %s", out.Kind, x.Kind, len(out.Elems), len(x.Elems), fn.Name())
					}
					if first {
						// the first live edge as it is; the others are selected by
						// their edge conditions (bits on which the edges agree stay
						// what they are, e.g. the constant bits of a loop counter)
						out = Val{Kind: KBits, Bits: append([]int(nil), x.Bits...), Signed: x.Signed}
						first = false
						continue
					}
					if len(out.Bits) != len(x.Bits) {
						unsupported("phi width mismatch in %s", fn.Name())
					}
					for k := range x.Bits {
						out.Bits[k] = m.Ite(ec, x.Bits[k], out.Bits[k])
					}
				}
				if first { // unreachable block
					w, s, _ := widthOf(v.Type())
					out = e.Const(0, max(w, 1), s)
				}
				vals[v] = out
			case *ssa.Call:
				e.outerCond = m.And(outer, reach[b])
				r := e.doCall(fn, v, get)
				e.outerCond = outer
				if r.Kind == KChoice {
					if !loopy {
						unsupported("call with several outcomes outside path mode in %s", fn.Name())
					}
					return idx, r.Alts
				}
				vals[v] = r
			case *ssa.Range:
				x := get(v.X)
				if x.Kind != KSlice && x.Kind != KStr {
					unsupported("range over a value that is not a string in %s", fn.Name())
				}
				if x.Kind == KStr {
					x = Val{Kind: KSlice, Elems: e.constBytes(x.Str), Lo: 0, Hi: len(x.Str)}
				}
				it := x
				it.cell = &cell{}
				vals[v] = Val{Kind: KOpaque, Name: "iter", Elems: x.Elems, Lo: x.Lo, Hi: x.Hi, cell: it.cell}
			case *ssa.Next:
				it := get(v.Iter)
				if !v.IsString || it.Kind != KOpaque || it.Name != "iter" || it.cell == nil {
					unsupported("unsupported iteration in %s", fn.Name())
				}
				if m.And(outer, reach[b]) == 0 {
					continue
				}
				pos := it.Lo + it.cell.pos
				if pos >= it.Hi {
					vals[v] = Val{Kind: KTuple, Tuple: []Val{BoolVal(0), e.Const(0, 64, true), e.Const(0, 32, true)}}
					continue
				}
				alts := e.decodeRune(it.Elems[pos:it.Hi], it.cell.pos)
				if len(alts) == 1 && alts[0].Cond == 1 {
					vals[v] = alts[0].Val
					it.cell.pos += alts[0].Val.Lo
					continue
				}
				if !loopy {
					unsupported("iteration over a symbolic string outside path mode in %s", fn.Name())
				}
				return idx, alts
			case *ssa.MakeClosure:
				f, ok := v.Fn.(*ssa.Function)
				if !ok {
					unsupported("unsupported closure in %s", fn.Name())
				}
				cl := Val{Kind: KFunc, Fn: f}
				for _, bnd := range v.Bindings {
					cl.Binds = append(cl.Binds, get(bnd))
				}
				vals[v] = cl
			case *ssa.MakeSlice:
				n, ok := constIdx(v.Len)
				w, _, isInt := widthOf(v.Type().Underlying().(*types.Slice).Elem())
				if ok && (!isInt || w != 8) && n >= 0 && n <= 4096 {
					// a slice of values that are not bytes
					vals[v] = Val{Kind: KSlice, cell: &cell{items: make([]Val, n)}, Lo: 0, Hi: n}
					continue
				}
				if !ok || !isInt || w != 8 || n < 0 || n > 4096 {
					unsupported("unsupported make in %s", fn.Name())
				}
				if n == 0 {
					vals[v] = Val{Kind: KSym}
					continue
				}
				el := make([][]int, n)
				for i := range el {
					el[i] = make([]int, 8)
				}
				vals[v] = Val{Kind: KSlice, Elems: el, Lo: 0, Hi: n}
			case *ssa.Extract:
				t := get(v.Tuple)
				if t.Kind != KTuple || v.Index >= len(t.Tuple) {
					unsupported("unsupported extract in %s", fn.Name())
				}
				vals[v] = t.Tuple[v.Index]
			case *ssa.If:
				c := get(v.Cond)
				if c.Kind != KBits || len(c.Bits) != 1 {
					unsupported("non-boolean condition in %s", fn.Name())
				}
				addEdge(b, b.Succs[0], m.And(reach[b], c.Bits[0]))
				addEdge(b, b.Succs[1], m.And(reach[b], m.Not(c.Bits[0])))
			case *ssa.Jump:
				addEdge(b, b.Succs[0], reach[b])
			case *ssa.Return:
				rs := make([]Val, len(v.Results))
				for i, r := range v.Results {
					rs[i] = get(r)
				}
				for i := range rs {
					if rs[i].Kind == KSlice && rs[i].cell != nil && rs[i].cell.items != nil {
						// a list is returned as it is now: the storage may be
						// written again on another path
						fr := append([]Val(nil), rs[i].cell.items[rs[i].Lo:rs[i].Hi]...)
						rs[i] = Val{Kind: KSlice, cell: &cell{items: fr}, Lo: 0, Hi: len(fr)}
					}
				}
				if loopy && reach[b] != 0 {
					retAlts = append(retAlts, ChoiceAlt{reach[b], tupled(append([]Val(nil), rs...))})
				}
				mergeResult(reach[b], rs)
			case *ssa.Defer:
				if !loopy && reach[b] != 1 {
					unsupported("conditionally registered defer in %s", fn.Name())
				}
				rec := deferRec{call: &v.Call}
				if !v.Call.IsInvoke() {
					if _, isB := v.Call.Value.(*ssa.Builtin); !isB {
						if _, isF := v.Call.Value.(*ssa.Function); !isF {
							rec.fn = get(v.Call.Value)
						}
					}
				}
				for _, a := range v.Call.Args {
					rec.args = append(rec.args, get(a))
				}
				defers = append(defers, rec)
			case *ssa.RunDefers:
				for i := len(defers) - 1; i >= 0; i-- {
					d := defers[i]
					e.outerCond = m.And(outer, reach[b])
					e.callCommon(fn, d.call, d.fn, d.args)
					e.outerCond = outer
				}
				defers = nil
			case *ssa.Panic:
				// a reachable panic is outside the grammar of total predicates
				if reach[b] != 0 {
					unsupported("reachable panic in %s", fn.Name())
				}
			case *ssa.TypeAssert:
				// the dynamic type of an interface value is the caller's
				// scenario: only a rule can say what an assertion yields
				if e.OnTypeAssert == nil {
					unsupported("type assertion %s in %s", v, fn.Name())
				}
				r, ok := e.OnTypeAssert(v, get(v.X))
				if !ok {
					unsupported("type assertion %s in %s", v, fn.Name())
				}
				vals[v] = r
			default:
				unsupported("unsupported instruction %T %s in %s", ins, ins, fn.Name())
			}
		}
		return -1, nil
	}
	if !loopy {
		for _, b := range rpo(fn) {
			if b != fn.Blocks[0] {
				r := 0
				for _, p := range b.Preds {
					r = m.Or(r, edge[[2]*ssa.BasicBlock{p, b}])
				}
				reach[b] = r
				if r == 0 {
					continue // dead under every input
				}
			}
			execBlock(b, 0)
		}
		return results
	}
	// path-by-path evaluation
	steps := 0
	type cellSnap struct {
		c     *cell
		arr   [][]int
		val   *Val
		set   bool
		items []Val
		sym   []Seg
		pos   int
	}
	snapshot := func() (map[ssa.Value]Val, []cellSnap) {
		vc := make(map[ssa.Value]Val, len(vals))
		seen := map[*cell]bool{}
		var cs []cellSnap
		var visit func(c *cell)
		visit = func(c *cell) {
			if c == nil || seen[c] {
				return
			}
			seen[c] = true
			cs = append(cs, cellSnap{c, append([][]int(nil), c.arr...), c.val, c.set, append([]Val(nil), c.items...), c.sym, c.pos})
			if c.val != nil {
				visit(c.val.cell)
				for _, bv := range c.val.Binds {
					visit(bv.cell)
				}
			}
			for _, it := range c.items {
				visit(it.cell)
			}
		}
		for k, v := range vals {
			vc[k] = v
			visit(v.cell)
			for _, bv := range v.Binds {
				visit(bv.cell)
			}
		}
		return vc, cs
	}
	restore := func(vc map[ssa.Value]Val, cs []cellSnap) {
		for k := range vals {
			delete(vals, k)
		}
		for k, v := range vc {
			vals[k] = v
		}
		for _, s := range cs {
			s.c.arr, s.c.val, s.c.set, s.c.sym, s.c.pos = s.arr, s.val, s.set, s.sym, s.pos
			if s.c.items != nil {
				// a fresh copy: the snapshot is restored once per alternative
				// and elements are written in place
				s.c.items = append([]Val(nil), s.items...)
			}
		}
	}
	// pure: a block whose instructions have no outcome but their values,
	// conditional stores and a conditional return: it can be evaluated under a
	// symbolic condition and merged with its siblings
	pure := func(b *ssa.BasicBlock) bool {
		for _, in := range b.Instrs {
			switch x := in.(type) {
			case *ssa.BinOp, *ssa.UnOp, *ssa.Convert, *ssa.ChangeType, *ssa.ChangeInterface, *ssa.Phi, *ssa.IndexAddr, *ssa.Index,
				*ssa.Lookup, *ssa.Slice, *ssa.FieldAddr, *ssa.Extract, *ssa.MakeInterface, *ssa.Store,
				*ssa.If, *ssa.Jump, *ssa.Return, *ssa.DebugRef, *ssa.Alloc:
			case *ssa.Call:
				if bi, ok := x.Call.Value.(*ssa.Builtin); !ok || (bi.Name() != "len" && bi.Name() != "cap") {
					return false
				}
			default:
				return false
			}
		}
		return true
	}
	// region finds, for a block ending in a two-way branch, the pure acyclic
	// blocks behind it up to a single continuation block j (nil: no such shape)
	region := func(b *ssa.BasicBlock) (order []*ssa.BasicBlock, j *ssa.BasicBlock) {
		in := map[*ssa.BasicBlock]bool{}
		state := map[*ssa.BasicBlock]int{} // 1 on stack, 2 done
		ok := true
		var post []*ssa.BasicBlock
		var visit func(x *ssa.BasicBlock)
		frontier := func(x *ssa.BasicBlock) {
			if j == nil {
				j = x
			} else if j != x {
				ok = false
			}
		}
		visit = func(x *ssa.BasicBlock) {
			if !ok || state[x] == 2 {
				return
			}
			if state[x] == 1 || x == b || x.Dominates(b) || !pure(x) || len(in) > 24 {
				// a cycle, the way back to a loop head, or a block that must be
				// executed on one path: the continuation
				if state[x] == 1 {
					ok = false
					return
				}
				frontier(x)
				return
			}
			state[x] = 1
			in[x] = true
			for _, sc := range x.Succs {
				visit(sc)
			}
			state[x] = 2
			post = append(post, x)
		}
		for _, sc := range b.Succs {
			visit(sc)
		}
		if !ok || len(in) == 0 {
			return nil, nil
		}
		if j != nil && in[j] {
			return nil, nil
		}
		// strings and slices are windows: two of them cannot be selected by a
		// condition, the branches must be followed one by one
		windowPhi := func(x *ssa.BasicBlock) bool {
			for _, ins := range x.Instrs {
				phi, isPhi := ins.(*ssa.Phi)
				if !isPhi {
					break
				}
				switch t := phi.Type().Underlying().(type) {
				case *types.Slice:
					return true
				case *types.Basic:
					if t.Info()&types.IsString != 0 {
						return true
					}
				}
			}
			return false
		}
		if j != nil && windowPhi(j) {
			return nil, nil
		}
		for x := range in {
			if windowPhi(x) {
				return nil, nil
			}
		}
		for i := len(post) - 1; i >= 0; i-- {
			order = append(order, post[i])
		}
		return order, j
	}
	merged := &ssa.BasicBlock{} // marker: the block is entered with merged edges
	noMergeAt := map[*ssa.BasicBlock]bool{}
	var run func(b, pred *ssa.BasicBlock, cond int, from int)
	run = func(b, pred *ssa.BasicBlock, cond int, from int) {
		steps++
		if steps > e.budget() {
			unsupported("%s: loop not bounded within the step budget", fn.Name())
		}
		if from == 0 && pred != merged {
			for _, p := range b.Preds {
				edge[[2]*ssa.BasicBlock{p, b}] = 0
			}
			if pred != nil {
				edge[[2]*ssa.BasicBlock{pred, b}] = cond
			}
		}
		reach[b] = cond
		curPred = pred
		if pred == merged {
			curPred = nil
		}
		for _, sc := range b.Succs {
			edge[[2]*ssa.BasicBlock{b, sc}] = 0
		}
		if at, alts := execBlock(b, from); at >= 0 {
			// one continuation per outcome of the library call
			for _, alt := range alts {
				c2 := m.And(cond, alt.Cond)
				if c2 == 0 {
					continue
				}
				vc, cs := snapshot()
				savedDefers := append([]deferRec(nil), defers...)
				vals[b.Instrs[at].(ssa.Value)] = alt.Val
				if nx, isNext := b.Instrs[at].(*ssa.Next); isNext {
					// the iterator advances by the width of the rune of this outcome
					if it, okIt := vals[nx.Iter]; okIt && it.cell != nil {
						it.cell.pos += alt.Val.Lo
					}
				}
				run(b, pred, c2, at+1)
				restore(vc, cs)
				defers = savedDefers
			}
			return
		}
		type out struct {
			to   *ssa.BasicBlock
			cond int
		}
		var outs []out
		for i, sc := range b.Succs {
			if i == 1 && b.Succs[0] == sc {
				continue
			}
			if ec := edge[[2]*ssa.BasicBlock{b, sc}]; ec != 0 {
				outs = append(outs, out{sc, ec})
			}
		}
		if len(outs) == 2 && !e.NoMerge && os.Getenv("GSA_NOMERGE") == "" && !noMergeAt[b] {
			if order, j := region(b); order != nil {
				// should a block of the region turn out to need a fork (a slice
				// with a symbolic bound), the branches are followed one by one
				vcM, csM := snapshot()
				defersM := append([]deferRec(nil), defers...)
				okMerge := true
				// both branches are followed at once through the pure blocks
				// behind the test and meet again in j
				inReg := map[*ssa.BasicBlock]bool{}
				for _, x := range order {
					inReg[x] = true
				}
				targets := append([]*ssa.BasicBlock(nil), order...)
				if j != nil {
					targets = append(targets, j)
				}
				for _, x := range targets {
					for _, p := range x.Preds {
						if p != b {
							edge[[2]*ssa.BasicBlock{p, x}] = 0
						}
					}
				}
				for _, x := range order {
					r := 0
					for _, p := range x.Preds {
						r = m.Or(r, edge[[2]*ssa.BasicBlock{p, x}])
					}
					reach[x] = r
					if r == 0 {
						continue
					}
					steps++
					curPred = nil
					for _, sc := range x.Succs {
						edge[[2]*ssa.BasicBlock{x, sc}] = 0
					}
					if at, _ := execBlock(x, 0); at >= 0 {
						okMerge = false
						break
					}
				}
				if okMerge {
					if j != nil {
						cj := 0
						for _, p := range j.Preds {
							cj = m.Or(cj, edge[[2]*ssa.BasicBlock{p, j}])
						}
						if cj != 0 {
							run(j, merged, cj, 0)
						}
					}
					return
				}
				restore(vcM, csM)
				defers = defersM
				noMergeAt[b] = true
			}
		}
		for i, o := range outs {
			if i == len(outs)-1 {
				run(o.to, b, o.cond, 0)
				break
			}
			vc, cs := snapshot()
			savedDefers := append([]deferRec(nil), defers...)
			run(o.to, b, o.cond, 0)
			restore(vc, cs)
			defers = savedDefers
		}
	}
	// the paths of a callee are explored under the absolute condition of the
	// call, so that those the caller has already excluded are not followed
	start := outer
	if start == 0 {
		return results
	}
	run(fn.Blocks[0], nil, start, 0)
	if strConflict {
		// string results that differ between the paths cannot be merged: the
		// caller continues once per return of this function
		for i := range retAlts {
			rv := retAlts[i].Val
			fix := func(k int, x Val) Val {
				if isErrResult(k) && x.Kind != KBits {
					if x.Kind == KOpaque && x.Name == "nil" {
						return BoolVal(0)
					}
					return BoolVal(1)
				}
				return x
			}
			if rv.Kind == KTuple {
				for k := range rv.Tuple {
					rv.Tuple[k] = fix(k, rv.Tuple[k])
				}
			} else {
				rv = fix(0, rv)
			}
			retAlts[i].Val = rv
		}
		return []Val{{Kind: KChoice, Alts: retAlts}}
	}
	return results
}

func (e *Eval) condStoreArr(c *cell, x [][]int, cond int) {
	for i := range c.arr {
		nw := make([]int, 8)
		for b := range nw {
			nw[b] = e.M.Ite(cond, x[i][b], c.arr[i][b])
		}
		c.arr[i] = nw
	}
}

func constIdx(v ssa.Value) (int, bool) {
	c, ok := v.(*ssa.Const)
	if !ok || c.Value == nil {
		return 0, false
	}
	i, ok := constant.Int64Val(constant.ToInt(c.Value))
	return int(i), ok
}

func (e *Eval) constVal(c *ssa.Const) Val {
	if c.Value == nil {
		if arr, ok := c.Type().Underlying().(*types.Array); ok {
			if b, ok := arr.Elem().Underlying().(*types.Basic); ok && b.Kind() == types.Uint8 {
				el := make([][]int, arr.Len())
				for i := range el {
					el[i] = make([]int, 8)
				}
				return Val{Kind: KArray, Elems: el}
			}
		}
		return Val{Kind: KOpaque, Name: "nil"}
	}
	switch c.Value.Kind() {
	case constant.Bool:
		if constant.BoolVal(c.Value) {
			return BoolVal(1)
		}
		return BoolVal(0)
	case constant.String:
		return Val{Kind: KStr, Str: constant.StringVal(c.Value)}
	case constant.Int:
		w, s, ok := widthOf(c.Type())
		if !ok {
			unsupported("constant of unsupported type %s", c.Type())
		}
		i, exact := constant.Int64Val(c.Value)
		if !exact {
			u, _ := constant.Uint64Val(c.Value)
			i = int64(u)
		}
		return e.Const(i, w, s)
	}
	unsupported("unsupported constant %s", c)
	return Val{}
}

// extend zero- or sign-extends (or truncates) to width w.
func (e *Eval) extend(x Val, w int) []int {
	out := make([]int, w)
	for i := 0; i < w; i++ {
		switch {
		case i < len(x.Bits):
			out[i] = x.Bits[i]
		case x.Signed:
			out[i] = x.Bits[len(x.Bits)-1]
		}
	}
	return out
}

func (e *Eval) add(a, b []int, carry int) []int {
	m := e.M
	out := make([]int, len(a))
	for i := range a {
		out[i] = m.Xor(m.Xor(a[i], b[i]), carry)
		carry = m.Or(m.And(a[i], b[i]), m.And(carry, m.Xor(a[i], b[i])))
	}
	return out
}

func (e *Eval) sub(a, b []int) []int {
	nb := make([]int, len(b))
	for i := range b {
		nb[i] = e.M.Not(b[i])
	}
	return e.add(a, nb, 1)
}

// ult is unsigned a < b.
func (e *Eval) ult(a, b []int) int {
	m := e.M
	lt := 0
	for i := 0; i < len(a); i++ { // from LSB up: lt = (¬a&b) | (¬(a^b) & lt)
		lt = m.Or(m.And(m.Not(a[i]), b[i]), m.And(m.Not(m.Xor(a[i], b[i])), lt))
	}
	return lt
}

func (e *Eval) eq(a, b []int) int {
	m := e.M
	r := 1
	for i := len(a) - 1; i >= 0; i-- {
		r = m.And(r, m.Not(m.Xor(a[i], b[i])))
	}
	return r
}

func (e *Eval) less(a, b []int, signed bool) int {
	if !signed {
		return e.ult(a, b)
	}
	// flip sign bits
	n := len(a)
	a2 := append([]int(nil), a...)
	b2 := append([]int(nil), b...)
	a2[n-1] = e.M.Not(a[n-1])
	b2[n-1] = e.M.Not(b[n-1])
	return e.ult(a2, b2)
}

func (e *Eval) binop(fn *ssa.Function, v *ssa.BinOp, x, y Val) Val {
	m := e.M
	// string(slice) == "const"
	if (x.Kind == KSlice && y.Kind == KStr) || (x.Kind == KStr && y.Kind == KSlice) {
		if x.Kind == KStr {
			x, y = y, x
		}
		if v.Op != token.EQL && v.Op != token.NEQ {
			unsupported("unsupported string comparison %s in %s", v, fn.Name())
		}
		r := 0
		if len(y.Str) == x.Hi-x.Lo {
			r = 1
			for i := len(y.Str) - 1; i >= 0; i-- {
				c := e.Const(int64(y.Str[i]), 8, false)
				r = m.And(e.eq(x.Elems[x.Lo+i], c.Bits), r)
			}
		}
		if v.Op == token.NEQ {
			r = m.Not(r)
		}
		return BoolVal(r)
	}
	if x.Kind == KArray && y.Kind == KArray && len(x.Elems) == len(y.Elems) && (v.Op == token.EQL || v.Op == token.NEQ) {
		r := 1
		for i := len(x.Elems) - 1; i >= 0; i-- {
			r = m.And(e.eq(x.Elems[i], y.Elems[i]), r)
		}
		if v.Op == token.NEQ {
			r = m.Not(r)
		}
		return BoolVal(r)
	}
	if isNil := func(a Val) bool { return a.Kind == KOpaque && a.Name == "nil" }; (isNil(x) || isNil(y)) && (v.Op == token.EQL || v.Op == token.NEQ) {
		// comparison with nil: the values that are built here (windows of the
		// input, closures, builders, built strings) are not nil
		other := x
		if isNil(x) {
			other = y
		}
		switch other.Kind {
		case KSlice, KFunc, KCell, KArrPtr, KSym:
			return BoolVal(bool2bdd(v.Op == token.NEQ))
		case KOpaque:
			if isNil(other) {
				return BoolVal(bool2bdd(v.Op == token.EQL))
			}
		}
	}
	if v.Op == token.ADD && (x.Kind == KSym || x.Kind == KStr) && (y.Kind == KSym || y.Kind == KStr) {
		if x.Kind == KStr && y.Kind == KStr {
			return Val{Kind: KStr, Str: x.Str + y.Str}
		}
		return e.concat(x, y)
	}
	if x.Kind == KStr && y.Kind == KStr && (v.Op == token.EQL || v.Op == token.NEQ) {
		return BoolVal(bool2bdd((x.Str == y.Str) == (v.Op == token.EQL)))
	}
	if x.Kind != KBits || y.Kind != KBits {
		unsupported("unsupported operands of %s in %s", v, fn.Name())
	}
	switch v.Op {
	case token.QUO, token.REM:
		if len(x.Bits) != len(y.Bits) {
			unsupported("operand width mismatch of %s in %s", v, fn.Name())
		}
		return e.divmod(x, y, v.Op == token.REM)
	case token.SHL, token.SHR:
		w := len(x.Bits)
		shiftBy := func(n int) []int {
			out := make([]int, w)
			for i := 0; i < w; i++ {
				var src int
				if v.Op == token.SHL {
					src = i - n
				} else {
					src = i + n
				}
				switch {
				case src >= 0 && src < w:
					out[i] = x.Bits[src]
				case src >= w && x.Signed:
					out[i] = x.Bits[w-1]
				}
			}
			return out
		}
		if n, ok := constIdx(v.Y); ok {
			return Val{Kind: KBits, Bits: shiftBy(n), Signed: x.Signed}
		}
		// a computed amount: one case per value it can take
		out := make([]int, w)
		e.enum(y.Bits, func(n uint64, cond int) {
			if y.Signed && asSigned(n, len(y.Bits)) < 0 {
				unsupported("shift by a possibly negative amount in %s", fn.Name())
			}
			k := w
			if n < uint64(w) {
				k = int(n)
			}
			sh := shiftBy(k)
			for i := range out {
				out[i] = m.Or(out[i], m.And(cond, sh[i]))
			}
		})
		return Val{Kind: KBits, Bits: out, Signed: x.Signed}
	}
	if len(x.Bits) != len(y.Bits) {
		unsupported("operand width mismatch of %s in %s", v, fn.Name())
	}
	signed := x.Signed
	bitwise := func(f func(a, b int) int) Val {
		out := make([]int, len(x.Bits))
		for i := range out {
			out[i] = f(x.Bits[i], y.Bits[i])
		}
		return Val{Kind: KBits, Bits: out, Signed: signed}
	}
	switch v.Op {
	case token.AND:
		return bitwise(m.And)
	case token.OR:
		return bitwise(m.Or)
	case token.XOR:
		return bitwise(m.Xor)
	case token.AND_NOT:
		return bitwise(func(a, b int) int { return m.And(a, m.Not(b)) })
	case token.MUL:
		// shift-and-add over the bits of y (exact modulo 2^w, like the machine)
		w := len(x.Bits)
		acc := make([]int, w)
		for i := 0; i < w; i++ {
			if y.Bits[i] == 0 {
				continue
			}
			sh := make([]int, w)
			for k := i; k < w; k++ {
				sh[k] = m.And(x.Bits[k-i], y.Bits[i])
			}
			acc = e.add(acc, sh, 0)
		}
		return Val{Kind: KBits, Bits: acc, Signed: signed}
	case token.ADD:
		return Val{Kind: KBits, Bits: e.add(x.Bits, y.Bits, 0), Signed: signed}
	case token.SUB:
		return Val{Kind: KBits, Bits: e.sub(x.Bits, y.Bits), Signed: signed}
	case token.EQL:
		return BoolVal(e.eq(x.Bits, y.Bits))
	case token.NEQ:
		return BoolVal(m.Not(e.eq(x.Bits, y.Bits)))
	case token.LSS:
		return BoolVal(e.less(x.Bits, y.Bits, signed))
	case token.GTR:
		return BoolVal(e.less(y.Bits, x.Bits, signed))
	case token.LEQ:
		return BoolVal(m.Not(e.less(y.Bits, x.Bits, signed)))
	case token.GEQ:
		return BoolVal(m.Not(e.less(x.Bits, y.Bits, signed)))
	}
	unsupported("unsupported operator %s in %s", v, fn.Name())
	return Val{}
}

func (e *Eval) doCall(fn *ssa.Function, v *ssa.Call, get func(ssa.Value) Val) Val {
	c := &v.Call
	var args []Val
	if c.IsInvoke() {
		args = append(args, get(c.Value))
	}
	for _, a := range c.Args {
		args = append(args, get(a))
	}
	var fv Val
	if !c.IsInvoke() {
		if _, isB := c.Value.(*ssa.Builtin); !isB {
			if _, isF := c.Value.(*ssa.Function); !isF {
				fv = get(c.Value)
			} else {
				fv = get(c.Value)
			}
		}
	}
	return e.callCommon(fn, c, fv, args)
}

// callCommon performs a call whose operands are already evaluated (fv: the
// value of the callee for calls through a function value).
func (e *Eval) callCommon(fn *ssa.Function, c *ssa.CallCommon, fv Val, args []Val) Val {
	get := func(ssa.Value) Val { return fv }
	name := calleeName(c)
	if e.Override != nil {
		if r, ok := e.Override(name, c, args); ok {
			return r
		}
	}
	if name == "dynamic" {
		if fv.Kind == KOpaque {
			name = "dynamic:" + fv.Name
		}
	}
	if (name == "builtin.min" || name == "builtin.max") && len(args) >= 1 {
		out := args[0]
		okAll := out.Kind == KBits
		for _, a := range args[1:] {
			if !okAll || a.Kind != KBits || len(a.Bits) != len(out.Bits) {
				okAll = false
				break
			}
			lt := e.less(a.Bits, out.Bits, out.Signed) // a < out
			if name == "builtin.max" {
				lt = e.less(out.Bits, a.Bits, out.Signed) // out < a
			}
			nb := make([]int, len(out.Bits))
			for i := range nb {
				nb[i] = e.M.Ite(lt, a.Bits[i], out.Bits[i])
			}
			out = Val{Kind: KBits, Bits: nb, Signed: out.Signed}
		}
		if okAll {
			return out
		}
	}
	if (name == "builtin.len" || name == "builtin.cap") && len(args) == 1 {
		n := -1
		switch a := args[0]; a.Kind {
		case KSlice:
			n = a.Hi - a.Lo
		case KArray:
			n = len(a.Elems)
		case KArrPtr:
			n = len(a.cell.arr)
		case KStr:
			if name == "builtin.len" {
				n = len(a.Str)
			}
		case KOpaque:
			if a.Name == "nil" {
				n = 0
			}
		case KSym:
			if len(a.Segs) == 0 {
				n = 0
			}
		}
		if n >= 0 {
			return e.Const(int64(n), 64, true)
		}
	}
	if name == "dynamic" || strings.HasPrefix(name, "dynamic:func:") {
		fv := get(c.Value)
		if fv.Kind == KFunc {
			e.nextBinds = fv.Binds
			return tupled(e.call(fv.Fn, args))
		}
		if fv.Kind == KOpaque && fv.Fn != nil && len(fv.Fn.Blocks) > 0 && len(fv.Fn.FreeVars) == 0 && e.InScope != nil && e.InScope(fv.Fn) {
			return tupled(e.call(fv.Fn, args))
		}
	}
	if mc, ok := c.Value.(*ssa.MakeClosure); ok {
		if fv := get(mc); fv.Kind == KFunc {
			e.nextBinds = fv.Binds
			return tupled(e.call(fv.Fn, args))
		}
	}
	if r, ok := e.symCall(name, c, args, e.outerCond); ok {
		return r
	}
	if r, ok := e.scanCall(name, c, args); ok {
		return r
	}
	if callee := c.StaticCallee(); callee != nil && len(callee.Blocks) > 0 && e.InScope != nil && e.InScope(callee) {
		return tupled(e.call(callee, args))
	}
	if e.OnCall != nil {
		if r, ok := e.OnCall(name, c, args); ok {
			return r
		}
	}
	unsupported("unsupported call of %s in %s", name, fn.Name())
	return Val{}
}

func calleeName(c *ssa.CallCommon) string {
	if c.IsInvoke() {
		return "invoke." + c.Method.Name()
	}
	if b, ok := c.Value.(*ssa.Builtin); ok {
		return "builtin." + b.Name()
	}
	if f := c.StaticCallee(); f != nil {
		if f.Signature.Recv() != nil {
			return f.String()
		}
		if f.Pkg != nil {
			return f.Pkg.Pkg.Path() + "." + f.Name()
		}
		return f.String()
	}
	return "dynamic"
}

func rpo(fn *ssa.Function) []*ssa.BasicBlock {
	seen := map[*ssa.BasicBlock]bool{}
	var post []*ssa.BasicBlock
	var dfs func(b *ssa.BasicBlock)
	dfs = func(b *ssa.BasicBlock) {
		seen[b] = true
		for _, s := range b.Succs {
			if !seen[s] {
				dfs(s)
			}
		}
		post = append(post, b)
	}
	dfs(fn.Blocks[0])
	for i, j := 0, len(post)-1; i < j; i, j = i+1, j-1 {
		post[i], post[j] = post[j], post[i]
	}
	return post
}

// Expr evaluates an expression tree (constants, conversions, unary and binary
// integer and Boolean operators) over the leaves given in env; anything else
// is Unsupported.
func (e *Eval) Expr(v ssa.Value, env map[ssa.Value]Val) (res Val, err error) {
	defer func() {
		if r := recover(); r != nil {
			if u, ok := r.(*Unsupported); ok {
				err = u
				return
			}
			panic(r)
		}
	}()
	return e.expr(v, env, 0), nil
}

func (e *Eval) expr(v ssa.Value, env map[ssa.Value]Val, depth int) Val {
	if x, ok := env[v]; ok {
		return x
	}
	if depth > 12 {
		unsupported("expression too deep")
	}
	switch x := v.(type) {
	case *ssa.Const:
		return e.constVal(x)
	case *ssa.Convert:
		a := e.expr(x.X, env, depth+1)
		if a.Kind != KBits {
			unsupported("conversion of a non-integer")
		}
		w, sg, ok := widthOf(x.Type())
		if !ok {
			unsupported("unsupported conversion %s", x)
		}
		return Val{Kind: KBits, Bits: e.extend(a, w), Signed: sg}
	case *ssa.UnOp:
		a := e.expr(x.X, env, depth+1)
		switch {
		case x.Op == token.NOT && a.Kind == KBits && len(a.Bits) == 1:
			return BoolVal(e.M.Not(a.Bits[0]))
		case x.Op == token.XOR && a.Kind == KBits:
			nb := make([]int, len(a.Bits))
			for i := range nb {
				nb[i] = e.M.Not(a.Bits[i])
			}
			return Val{Kind: KBits, Bits: nb, Signed: a.Signed}
		}
		unsupported("unsupported unary operator %s", x)
	case *ssa.BinOp:
		return e.binop(x.Parent(), x, e.expr(x.X, env, depth+1), e.expr(x.Y, env, depth+1))
	}
	unsupported("unsupported leaf %s", v)
	return Val{}
}

// StringInput makes a string (or []byte) of n bytes whose bits are variables
// base .. base+8n-1, most significant bit of byte 0 first.
func (e *Eval) StringInput(base, n int) Val {
	a := e.ArrayInput(base, n)
	return Val{Kind: KSlice, Elems: a.Elems, Lo: 0, Hi: n}
}

func tupled(rs []Val) Val {
	switch len(rs) {
	case 0:
		return Opaque("void")
	case 1:
		return rs[0]
	}
	return Val{Kind: KTuple, Tuple: rs}
}

func bool2bdd(b bool) int {
	if b {
		return 1
	}
	return 0
}

// tableOf views a constant string or a byte array as a lookup table.
func (e *Eval) tableOf(a Val) ([][]int, bool) {
	switch a.Kind {
	case KStr:
		return e.constBytes(a.Str), true
	case KArray:
		return a.Elems, true
	case KSlice:
		if a.cell == nil || a.cell.items == nil {
			return a.Elems[a.Lo:a.Hi], true
		}
	}
	return nil, false
}

// ChoiceAlt is one outcome of a library call: the condition on the inputs
// under which it is the outcome, and the value.
type ChoiceAlt struct {
	Cond int
	Val  Val
}

func (e *Eval) budget() int {
	if e.Steps > 0 {
		return e.Steps
	}
	return 20000
}

func sameString(a, b Val) bool {
	if a.Kind != b.Kind {
		return false
	}
	switch a.Kind {
	case KStr:
		return a.Str == b.Str
	case KSlice:
		ai := a.cell != nil && a.cell.items != nil
		bi := b.cell != nil && b.cell.items != nil
		if ai || bi {
			if !ai || !bi || a.Hi-a.Lo != b.Hi-b.Lo {
				return false
			}
			for i := 0; i < a.Hi-a.Lo; i++ {
				if !sameString(a.cell.items[a.Lo+i], b.cell.items[b.Lo+i]) {
					return false
				}
			}
			return true
		}
		if a.Lo != b.Lo || a.Hi != b.Hi || len(a.Elems) != len(b.Elems) {
			return false
		}
		for i := a.Lo; i < a.Hi; i++ {
			for k := range a.Elems[i] {
				if a.Elems[i][k] != b.Elems[i][k] {
					return false
				}
			}
		}
		return true
	}
	return false
}
