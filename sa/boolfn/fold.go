package boolfn

import (
	"unicode"
	"unicode/utf8"
)

// Library models for Unicode simple case folding.  The table is the analysis
// tool's own copy of the Unicode data (package unicode of the toolchain the
// checker is built with): a model of the library, like the models of strings
// and strconv, not an execution of the code under analysis.

type foldPair struct{ from, to rune }

var foldPairs []foldPair // every rune r with SimpleFold(r) != r
var maxOrbit int         // the longest fold orbit

func init() {
	for r := rune(0); r <= unicode.MaxRune; r++ {
		f := unicode.SimpleFold(r)
		if f == r {
			continue
		}
		foldPairs = append(foldPairs, foldPair{r, f})
		n := 1
		for g := f; g != r; g = unicode.SimpleFold(g) {
			n++
		}
		if n > maxOrbit {
			maxOrbit = n
		}
	}
}

// eqConst: the 32 bits r spell the constant x (tested from the high bit down,
// so that constant zero bits of a short rune end the conjunction at once).
func (e *Eval) eqConst(r []int, x rune) int {
	m := e.M
	c := 1
	for b := len(r) - 1; b >= 0 && c != 0; b-- {
		bit := r[b]
		if (uint32(x)>>uint(b))&1 == 0 {
			bit = m.Not(bit)
		}
		c = m.And(c, bit)
	}
	return c
}

// simpleFold is unicode.SimpleFold on a symbolic rune of 32 bits.
func (e *Eval) simpleFold(r []int) []int {
	m := e.M
	if len(r) != 32 {
		unsupported("SimpleFold of a value that is not a rune")
	}
	if x, ok := constRune(r); ok {
		return e.Const(int64(unicode.SimpleFold(x)), 32, true).Bits
	}
	if e.foldMemo == nil {
		e.foldMemo = map[[32]int][]int{}
	}
	var key [32]int
	copy(key[:], r)
	if out, ok := e.foldMemo[key]; ok {
		return out
	}
	special := 0
	bits := make([]int, 32)
	for _, p := range foldPairs {
		c := e.eqConst(r, p.from)
		if c == 0 {
			continue
		}
		special = m.Or(special, c)
		for b := 0; b < 32; b++ {
			if (uint32(p.to)>>uint(b))&1 == 1 {
				bits[b] = m.Or(bits[b], c)
			}
		}
	}
	out := make([]int, 32)
	for b := range out {
		out[b] = m.Ite(special, bits[b], r[b])
	}
	e.foldMemo[key] = out
	return out
}

// runeFoldEq: the runes a and b are in the same fold orbit.
func (e *Eval) runeFoldEq(a, b []int) int {
	m := e.M
	if _, ok := constRune(a); ok {
		a, b = b, a
	}
	if x, ok := constRune(b); ok {
		// a constant on one side: membership in its (constant) orbit
		r := e.eqConst(a, x)
		for g := unicode.SimpleFold(x); g != x; g = unicode.SimpleFold(g) {
			r = m.Or(r, e.eqConst(a, g))
		}
		return r
	}
	r := e.eq(a, b)
	f := a
	for k := 1; k < maxOrbit && r != 1; k++ {
		f = e.simpleFold(f)
		r = m.Or(r, e.eq(f, b))
	}
	return r
}

// equalFold is strings.EqualFold on two byte windows: rune by rune (invalid
// bytes decode to U+FFFD, one byte wide, as the library has it), equal under
// simple folding, both exhausted together.
func (e *Eval) equalFold(a, b [][]int) int {
	m := e.M
	memo := map[[2]int]int{}
	var from func(i, j int) int
	from = func(i, j int) int {
		if i == len(a) || j == len(b) {
			if i == len(a) && j == len(b) {
				return 1
			}
			return 0
		}
		if v, ok := memo[[2]int{i, j}]; ok {
			return v
		}
		r := 0
		for _, da := range e.decodeRune(a[i:], i) {
			for _, db := range e.decodeRune(b[j:], j) {
				c := m.And(da.Cond, db.Cond)
				if c == 0 {
					continue
				}
				c = m.And(c, e.runeFoldEq(da.Val.Tuple[2].Bits, db.Val.Tuple[2].Bits))
				if c == 0 {
					continue
				}
				r = m.Or(r, m.And(c, from(i+da.Val.Lo, j+db.Val.Lo)))
			}
		}
		memo[[2]int{i, j}] = r
		return r
	}
	return from(0, 0)
}

// EqualFold, RuneBoundaries and ValidUTF8 are for specifications.
func (e *Eval) EqualFold(a, b [][]int) int { return e.equalFold(a, b) }

// RuneStarts: for each offset 0..len(s), the condition that a rune of s starts
// there when s is decoded from the left (offset len(s): the end is reached).
// valid: every rune decoded on the way is a valid encoding other than U+FFFD.
func (e *Eval) RuneStarts(s [][]int) (starts []int, valid int) {
	m := e.M
	starts = make([]int, len(s)+4)
	starts[0] = 1
	bad := 0
	fffd := e.Const(0xFFFD, 32, true).Bits
	for pos := 0; pos < len(s); pos++ {
		if starts[pos] == 0 {
			continue
		}
		for _, a := range e.decodeRune(s[pos:], pos) {
			c := m.And(starts[pos], a.Cond)
			if c == 0 {
				continue
			}
			bad = m.Or(bad, m.And(c, e.eq(a.Val.Tuple[2].Bits, fffd)))
			starts[pos+a.Val.Lo] = m.Or(starts[pos+a.Val.Lo], c)
		}
	}
	return starts[:len(s)+1], m.Not(bad)
}

var _ = utf8.RuneError

// ConstBytes: the bytes of a constant string as bit vectors.
func (e *Eval) ConstBytes(s string) [][]int { return e.constBytes(s) }

// FoldNeedleRunes lists the runes a fold search is tried with: every member
// of every fold orbit with more than two members, and for the orbits of one
// and two members one representative per shape (the UTF-8 widths of the rune
// and of its partner).  wide == false leaves out the four-byte shapes.
func FoldNeedleRunes() (big, reps []rune) {
	seen := map[[2]int]bool{}
	for r := rune(0); r <= unicode.MaxRune; r++ {
		if r >= 0xD800 && r <= 0xDFFF || r == utf8.RuneError {
			continue
		}
		f := unicode.SimpleFold(r)
		n := 1
		for g := f; g != r; g = unicode.SimpleFold(g) {
			n++
		}
		switch {
		case n > 2:
			big = append(big, r)
		default:
			key := [2]int{utf8.RuneLen(r), 0}
			if n == 2 {
				key[1] = utf8.RuneLen(f)
			}
			if !seen[key] && (r >= 0x80 || r == 'a' || r == '1') {
				seen[key] = true
				reps = append(reps, r)
			}
		}
	}
	return big, reps
}

// constRune: the 32 bits are all constants.
func constRune(r []int) (rune, bool) {
	if len(r) != 32 {
		return 0, false
	}
	var v uint32
	for b, bit := range r {
		switch bit {
		case 0:
		case 1:
			v |= 1 << uint(b)
		default:
			return 0, false
		}
	}
	return rune(int32(v)), true
}

// Items: the elements of a slice of values that are not bytes.
func (e *Eval) Items(v Val) ([]Val, bool) {
	if v.Kind == KOpaque && v.Name == "nil" {
		return nil, true
	}
	if v.Kind != KSlice || v.cell == nil || v.cell.items == nil {
		if v.Kind == KSlice && v.Hi == v.Lo {
			return nil, true
		}
		return nil, false
	}
	if v.Lo < 0 || v.Hi > len(v.cell.items) || v.Lo > v.Hi {
		return nil, false
	}
	return v.cell.items[v.Lo:v.Hi], true
}
