package boolfn

import (
	"fmt"
	"go/constant"
	"go/token"
	"go/types"
	"os"

	"golang.org/x/tools/go/ssa"
)

// Package-level lookup tables.  A global array of bytes (or a global string)
// that is written only by the package initialiser — element by element from
// a composite literal, or as the result of a parameterless function of the
// module — and only read everywhere else is a constant of the program: its
// contents are computed once by evaluating the initialiser (concretely: there
// are no inputs) and reads of it are table lookups.

func (e *Eval) globalValue(g *ssa.Global) (Val, bool) {
	if e.globals == nil {
		e.globals = map[*ssa.Global]*Val{}
	}
	if v, ok := e.globals[g]; ok {
		if v == nil {
			return Val{}, false
		}
		return e.copyGlobal(*v), true
	}
	e.globals[g] = nil
	v, ok := e.evalGlobal(g)
	if !ok {
		return Val{}, false
	}
	e.globals[g] = &v
	return e.copyGlobal(v), true
}

func (e *Eval) copyGlobal(v Val) Val {
	if v.Kind == KArrPtr {
		c := &cell{arr: append([][]int(nil), v.cell.arr...)}
		return Val{Kind: KArrPtr, cell: c}
	}
	return v
}

func (e *Eval) evalGlobal(g *ssa.Global) (Val, bool) {
	if g.Pkg == nil {
		return Val{}, false
	}
	elem := g.Type().Underlying().(*types.Pointer).Elem()
	arr, isArr := elem.Underlying().(*types.Array)
	isStr := false
	if b, ok := elem.Underlying().(*types.Basic); ok && b.Info()&types.IsString != 0 {
		isStr = true
	}
	if isArr {
		if w, _, ok := widthOf(arr.Elem()); !ok || w != 8 || arr.Len() > 1<<16 {
			return Val{}, false
		}
	} else if !isStr {
		return Val{}, false
	}
	initFn := g.Pkg.Func("init")
	if initFn == nil {
		return Val{}, false
	}
	// read-only outside the initialiser
	readOnly := true
	var scan func(fn *ssa.Function)
	seen := map[*ssa.Function]bool{}
	scan = func(fn *ssa.Function) {
		if fn == nil || seen[fn] || fn == initFn {
			return
		}
		seen[fn] = true
		for _, b := range fn.Blocks {
			for _, in := range b.Instrs {
				for _, op := range in.Operands(nil) {
					if op == nil || *op != ssa.Value(g) {
						continue
					}
					switch x := in.(type) {
					case *ssa.UnOp:
						if x.Op != token.MUL {
							readOnly = false
						}
					case *ssa.IndexAddr:
						if refs := x.Referrers(); refs != nil {
							for _, r := range *refs {
								switch y := r.(type) {
								case *ssa.UnOp:
									if y.Op != token.MUL {
										readOnly = false
									}
								case *ssa.DebugRef:
								default:
									readOnly = false
								}
							}
						}
					case *ssa.DebugRef:
					default:
						readOnly = false
					}
				}
			}
		}
		for _, af := range fn.AnonFuncs {
			scan(af)
		}
	}
	for _, mem := range g.Pkg.Members {
		switch m := mem.(type) {
		case *ssa.Function:
			scan(m)
		case *ssa.Type:
			for _, t := range []types.Type{m.Type(), types.NewPointer(m.Type())} {
				ms := g.Pkg.Prog.MethodSets.MethodSet(t)
				for i := 0; i < ms.Len(); i++ {
					scan(g.Pkg.Prog.MethodValue(ms.At(i)))
				}
			}
		}
	}
	if !readOnly {
		return Val{}, false
	}
	// the initialiser's writes
	var out Val
	if isArr {
		c := &cell{arr: make([][]int, arr.Len())}
		for i := range c.arr {
			c.arr[i] = make([]int, 8)
		}
		out = Val{Kind: KArrPtr, cell: c}
	} else {
		out = Val{Kind: KStr}
	}
	okAll := true
	var walk func(fn *ssa.Function, depth int)
	walk = func(fn *ssa.Function, depth int) {
		for _, b := range fn.Blocks {
			for _, in := range b.Instrs {
				switch x := in.(type) {
				case *ssa.Call:
					// the synthetic init calls the package's init functions
					if cal := x.Call.StaticCallee(); cal != nil && cal.Pkg == g.Pkg && depth == 0 && len(x.Call.Args) == 0 && cal.Synthetic == "" && len(cal.Name()) >= 5 && cal.Name()[:5] == "init#" {
						// an explicit func init(): must not touch the table
						for _, bb := range cal.Blocks {
							for _, ii := range bb.Instrs {
								for _, op := range ii.Operands(nil) {
									if op != nil && *op == ssa.Value(g) {
										okAll = false
									}
								}
							}
						}
					}
				case *ssa.Store:
					switch a := x.Addr.(type) {
					case *ssa.Global:
						if a != g {
							continue
						}
						switch v := x.Val.(type) {
						case *ssa.Const:
							if isStr && v.Value != nil && v.Value.Kind() == constant.String {
								out = Val{Kind: KStr, Str: constant.StringVal(v.Value)}
							} else if v.Value != nil {
								okAll = false
							}
						case *ssa.Call:
							cal := v.Call.StaticCallee()
							if cal == nil || len(v.Call.Args) != 0 || len(cal.Blocks) == 0 || cal.Pkg != g.Pkg {
								okAll = false
								continue
							}
							var rs []Val
							if err := guard(func() {
								saved, savedScope := e.outerCond, e.InScope
								e.outerCond = 1
								if e.InScope == nil {
									e.InScope = func(f *ssa.Function) bool { return f.Pkg == g.Pkg }
								}
								rs = e.call(cal, nil)
								e.outerCond, e.InScope = saved, savedScope
							}); err != nil || len(rs) != 1 {
								if os.Getenv("GSA_DBG") != "" {
									fmt.Fprintln(os.Stderr, "global table", g.Name(), ":", err)
								}
								okAll = false
								continue
							}
							switch {
							case isArr && rs[0].Kind == KArray && len(rs[0].Elems) == int(arr.Len()):
								copy(out.cell.arr, rs[0].Elems)
							case isStr && rs[0].Kind == KStr:
								out = rs[0]
							default:
								okAll = false
							}
						default:
							okAll = false
						}
					case *ssa.IndexAddr:
						if a.X != ssa.Value(g) {
							continue
						}
						k, isK := constIdx(a.Index)
						cv, isC := x.Val.(*ssa.Const)
						if !isArr || !isK || !isC || k < 0 || k >= len(out.cell.arr) {
							okAll = false
							continue
						}
						out.cell.arr[k] = e.constVal(cv).Bits
					}
				}
			}
		}
	}
	walk(initFn, 0)
	if !okAll {
		return Val{}, false
	}
	return out, true
}
