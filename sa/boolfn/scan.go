package boolfn

import (
	"strings"

	"golang.org/x/tools/go/ssa"
)

// Library calls that scan a string of symbolic bytes and concrete length.
// Calls whose outcome is a position (IndexByte, Cut, Trim, ...) return one
// alternative per position, each under the condition on the bytes that makes
// it the outcome; the path-mode evaluator continues once per alternative.
// Calls whose outcome is a Boolean or a number return it as Boolean functions.

// strBytes views a string argument as bytes of known count.
func (e *Eval) strBytes(v Val) ([][]int, bool) {
	switch v.Kind {
	case KStr:
		return e.constBytes(v.Str), true
	case KSlice:
		if v.cell != nil && v.cell.items != nil {
			return nil, false
		}
		return v.Elems[v.Lo:v.Hi], true
	case KOpaque:
		if v.Name == "nil" {
			return nil, true
		}
	}
	return nil, false
}

func window(v Val, lo, hi int) Val {
	switch v.Kind {
	case KStr:
		return Val{Kind: KStr, Str: v.Str[lo:hi]}
	case KSlice:
		return Val{Kind: KSlice, Elems: v.Elems, Lo: v.Lo + lo, Hi: v.Lo + hi}
	}
	return Val{Kind: KStr}
}

// matchAt: the bytes of pat occur in s at offset i.
func (e *Eval) matchAt(s, pat [][]int, i int) int {
	if i < 0 || i+len(pat) > len(s) {
		return 0
	}
	r := 1
	for k := len(pat) - 1; k >= 0; k-- {
		r = e.M.And(e.eq(s[i+k], pat[k]), r)
		if r == 0 {
			break
		}
	}
	return r
}

// inSet: the byte is one of the (ASCII) bytes of set.
func (e *Eval) inSet(b []int, set string) int {
	r := 0
	for i := 0; i < len(set); i++ {
		r = e.M.Or(r, e.eq(b, e.Const(int64(set[i]), 8, false).Bits))
	}
	return r
}

func isASCII(s string) bool {
	for i := 0; i < len(s); i++ {
		if s[i] >= 0x80 {
			return false
		}
	}
	return true
}

func choice(alts []ChoiceAlt) Val {
	if len(alts) == 1 && alts[0].Cond == 1 {
		return alts[0].Val
	}
	return Val{Kind: KChoice, Alts: alts}
}

// firstWhere lists, for a predicate per position, the alternatives "the first
// position where it holds is i" and "it holds nowhere" (i == n).
func (e *Eval) firstWhere(n int, pred func(i int) int, reverse bool) []struct{ i, cond int } {
	m := e.M
	var out []struct{ i, cond int }
	none := 1
	for k := 0; k < n; k++ {
		i := k
		if reverse {
			i = n - 1 - k
		}
		p := pred(i)
		if c := m.And(none, p); c != 0 {
			out = append(out, struct{ i, cond int }{i, c})
		}
		none = m.And(none, m.Not(p))
		if none == 0 {
			return out
		}
	}
	out = append(out, struct{ i, cond int }{-1, none})
	return out
}

func (e *Eval) scanCall(name string, c *ssa.CallCommon, args []Val) (Val, bool) {
	m := e.M
	// the standard library's internal spellings of the same scanners
	switch {
	case name == "internal/bytealg.IndexByteString" || name == "internal/bytealg.IndexByte":
		name = "strings.IndexByte"
	case name == "internal/bytealg.LastIndexByteString" || name == "internal/bytealg.LastIndexByte":
		name = "strings.LastIndexByte"
	case name == "internal/bytealg.CountString":
		name = "strings.Count"
	case strings.HasPrefix(name, "internal/stringslite."):
		name = "strings." + strings.TrimPrefix(name, "internal/stringslite.")
	}
	if strings.HasPrefix(name, "(encoding/binary.") && len(args) == 2 {
		// BigEndian / LittleEndian .Uint16/32/64 of a byte window
		big := strings.HasPrefix(name, "(encoding/binary.bigEndian)")
		n := 0
		switch {
		case strings.HasSuffix(name, ".Uint16"):
			n = 2
		case strings.HasSuffix(name, ".Uint32"):
			n = 4
		case strings.HasSuffix(name, ".Uint64"):
			n = 8
		}
		s, ok := e.strBytes(args[1])
		if n == 0 || !ok || len(s) < n {
			return Val{}, false
		}
		bits := make([]int, 8*n)
		for i := 0; i < n; i++ {
			// byte i holds bits 8(n-1-i).. (big endian) or 8i.. (little endian)
			at := 8 * i
			if big {
				at = 8 * (n - 1 - i)
			}
			copy(bits[at:at+8], s[i])
		}
		return Val{Kind: KBits, Bits: bits}, true
	}
	pkgFn := name
	if i := strings.IndexByte(name, '.'); i >= 0 && (strings.HasPrefix(name, "strings.") || strings.HasPrefix(name, "bytes.")) {
		pkgFn = name[i+1:]
	} else if name == "unicode/utf8.DecodeRuneInString" || name == "unicode/utf8.DecodeRune" {
		s, ok := e.strBytes(args[0])
		if !ok {
			return Val{}, false
		}
		if len(s) == 0 {
			return Val{Kind: KTuple, Tuple: []Val{e.Const(0xFFFD, 32, true), e.Const(0, 64, true)}}, true
		}
		var alts []ChoiceAlt
		for _, a := range e.decodeRune(s, 0) {
			alts = append(alts, ChoiceAlt{a.Cond, Val{Kind: KTuple, Tuple: []Val{a.Val.Tuple[2], e.Const(int64(a.Val.Lo), 64, true)}}})
		}
		return choice(alts), true
	} else if name == "unicode.SimpleFold" && len(args) == 1 && args[0].Kind == KBits {
		return Val{Kind: KBits, Bits: e.simpleFold(e.extend(args[0], 32)), Signed: true}, true
	} else if !strings.HasPrefix(name, "strconv.") {
		return Val{}, false
	}
	intv := func(i int) Val { return e.Const(int64(i), 64, true) }
	switch pkgFn {
	case "EqualFold":
		a, okA := e.strBytes(args[0])
		b, okB := e.strBytes(args[1])
		if !okA || !okB {
			return Val{}, false
		}
		return BoolVal(e.equalFold(a, b)), true
	case "IndexFunc", "ContainsFunc":
		// the first rune (decoded as the library does) on which the predicate
		// holds: conditions are accumulated per start position
		s, ok := e.strBytes(args[0])
		if !ok {
			return Val{}, false
		}
		var pf *ssa.Function
		var binds []Val
		switch {
		case args[1].Kind == KFunc:
			pf, binds = args[1].Fn, args[1].Binds
		case args[1].Kind == KOpaque && args[1].Fn != nil && len(args[1].Fn.Blocks) > 0:
			pf = args[1].Fn
		default:
			return Val{}, false
		}
		reach := make([]int, len(s)+5)
		reach[0] = e.outerCond
		if reach[0] == 0 {
			reach[0] = 1
		}
		var alts []ChoiceAlt
		found := 0
		saved := e.outerCond
		for pos := 0; pos < len(s); pos++ {
			if reach[pos] == 0 {
				continue
			}
			for _, a := range e.decodeRune(s[pos:], pos) {
				c := m.And(reach[pos], a.Cond)
				if c == 0 {
					continue
				}
				e.nextBinds = binds
				e.outerCond = c
				rs := e.call(pf, []Val{a.Val.Tuple[2]})
				e.outerCond = saved
				if len(rs) != 1 || rs[0].Kind != KBits || len(rs[0].Bits) != 1 {
					unsupported("predicate of %s does not return a Boolean", name)
				}
				yes := m.And(c, rs[0].Bits[0])
				if yes != 0 {
					alts = append(alts, ChoiceAlt{yes, intv(pos)})
					found = m.Or(found, yes)
				}
				next := pos + a.Val.Lo
				reach[next] = m.Or(reach[next], m.And(c, m.Not(rs[0].Bits[0])))
			}
		}
		if pkgFn == "ContainsFunc" {
			return BoolVal(found), true
		}
		none := 0
		for p := len(s); p < len(reach); p++ {
			none = m.Or(none, reach[p])
		}
		if len(s) == 0 {
			none = 1
		}
		if none != 0 {
			alts = append(alts, ChoiceAlt{none, intv(-1)})
		}
		// merge alternatives with the same index
		return choice(alts), true
	case "IndexByte", "LastIndexByte", "IndexRune":
		s, ok := e.strBytes(args[0])
		if !ok || args[1].Kind != KBits {
			return Val{}, false
		}
		cb := e.extend(args[1], 8)
		if pkgFn == "IndexRune" {
			// an ASCII rune constant only
			k, isK := constOf(args[1])
			if !isK || k < 0 || k >= 0x80 {
				return Val{}, false
			}
		}
		var alts []ChoiceAlt
		for _, a := range e.firstWhere(len(s), func(i int) int { return e.eq(s[i], cb) }, pkgFn == "LastIndexByte") {
			alts = append(alts, ChoiceAlt{a.cond, intv(a.i)})
		}
		return choice(alts), true
	case "Split":
		// one alternative per set of separator occurrences (leftmost,
		// non-overlapping, as the library cuts): the pieces are windows
		s, ok1 := e.strBytes(args[0])
		pat, ok2 := e.strBytes(args[1])
		if !ok1 || !ok2 || len(pat) == 0 || len(s) > 14 {
			return Val{}, false
		}
		base := e.outerCond
		if base == 0 {
			base = 1
		}
		var alts []ChoiceAlt
		var rec func(from int, cond int, pieces []Val)
		rec = func(from int, cond int, pieces []Val) {
			if m.And(cond, base) == 0 {
				return
			}
			none := cond
			for q := from; q+len(pat) <= len(s); q++ {
				hit := e.matchAt(s, pat, q)
				if c := m.And(none, hit); c != 0 {
					rec(q+len(pat), c, append(append([]Val(nil), pieces...), window(args[0], from, q)))
				}
				none = m.And(none, m.Not(hit))
				if none == 0 {
					return
				}
			}
			if m.And(none, base) != 0 {
				all := append(append([]Val(nil), pieces...), window(args[0], from, len(s)))
				alts = append(alts, ChoiceAlt{none, Val{Kind: KSlice, cell: &cell{items: all}, Lo: 0, Hi: len(all)}})
			}
		}
		rec(0, 1, nil)
		return choice(alts), true
	case "Index", "LastIndex", "Contains", "Cut":
		s, ok1 := e.strBytes(args[0])
		pat, ok2 := e.strBytes(args[1])
		if !ok1 || !ok2 || len(pat) == 0 {
			return Val{}, false
		}
		if len(pat) > 1 && pkgFn == "LastIndex" {
			return Val{}, false
		}
		fw := e.firstWhere(len(s), func(i int) int { return e.matchAt(s, pat, i) }, pkgFn == "LastIndex")
		switch pkgFn {
		case "Contains":
			r := 0
			for _, a := range fw {
				if a.i >= 0 {
					r = m.Or(r, a.cond)
				}
			}
			return BoolVal(r), true
		case "Cut":
			var alts []ChoiceAlt
			for _, a := range fw {
				if a.i < 0 {
					alts = append(alts, ChoiceAlt{a.cond, Val{Kind: KTuple, Tuple: []Val{args[0], Str(""), BoolVal(0)}}})
				} else {
					alts = append(alts, ChoiceAlt{a.cond, Val{Kind: KTuple, Tuple: []Val{window(args[0], 0, a.i), window(args[0], a.i+len(pat), len(s)), BoolVal(1)}}})
				}
			}
			return choice(alts), true
		}
		var alts []ChoiceAlt
		for _, a := range fw {
			alts = append(alts, ChoiceAlt{a.cond, intv(a.i)})
		}
		return choice(alts), true
	case "IndexAny", "LastIndexAny", "ContainsAny":
		s, ok := e.strBytes(args[0])
		if !ok || args[1].Kind != KStr || !isASCII(args[1].Str) {
			return Val{}, false
		}
		// a byte >= 0x80 is part of a non-ASCII rune, which is not in an ASCII set
		fw := e.firstWhere(len(s), func(i int) int { return e.inSet(s[i], args[1].Str) }, pkgFn == "LastIndexAny")
		if pkgFn == "ContainsAny" {
			r := 0
			for _, a := range fw {
				if a.i >= 0 {
					r = m.Or(r, a.cond)
				}
			}
			return BoolVal(r), true
		}
		var alts []ChoiceAlt
		for _, a := range fw {
			alts = append(alts, ChoiceAlt{a.cond, intv(a.i)})
		}
		return choice(alts), true
	case "HasPrefix", "HasSuffix", "CutPrefix", "CutSuffix", "TrimPrefix", "TrimSuffix":
		s, ok1 := e.strBytes(args[0])
		pat, ok2 := e.strBytes(args[1])
		if !ok1 || !ok2 {
			return Val{}, false
		}
		suffix := strings.HasSuffix(pkgFn, "Suffix")
		at := 0
		if suffix {
			at = len(s) - len(pat)
		}
		has := 0
		if len(pat) <= len(s) {
			has = e.matchAt(s, pat, at)
		}
		if len(pat) == 0 {
			has = 1
		}
		if strings.HasPrefix(pkgFn, "Has") {
			return BoolVal(has), true
		}
		rest := args[0]
		if has != 0 {
			if suffix {
				rest = window(args[0], 0, at)
			} else {
				rest = window(args[0], len(pat), len(s))
			}
		}
		var alts []ChoiceAlt
		if strings.HasPrefix(pkgFn, "Cut") {
			if has != 0 {
				alts = append(alts, ChoiceAlt{has, Val{Kind: KTuple, Tuple: []Val{rest, BoolVal(1)}}})
			}
			if nh := m.Not(has); nh != 0 {
				alts = append(alts, ChoiceAlt{nh, Val{Kind: KTuple, Tuple: []Val{args[0], BoolVal(0)}}})
			}
		} else {
			if has != 0 {
				alts = append(alts, ChoiceAlt{has, rest})
			}
			if nh := m.Not(has); nh != 0 {
				alts = append(alts, ChoiceAlt{nh, args[0]})
			}
		}
		return choice(alts), true
	case "TrimSpace":
		s, ok := e.strBytes(args[0])
		if !ok {
			return Val{}, false
		}
		cuts, okV := e.TrimSpaceCuts(s, e.outerCond)
		if !okV {
			return Val{}, false
		}
		var alts []ChoiceAlt
		for _, c := range cuts {
			alts = append(alts, ChoiceAlt{c.Cond, window(args[0], c.Lo, c.Hi)})
		}
		return choice(alts), true
	case "TrimLeft", "TrimRight", "Trim":
		s, ok := e.strBytes(args[0])
		if !ok || args[1].Kind != KStr || !isASCII(args[1].Str) {
			return Val{}, false
		}
		set := args[1].Str
		notIn := func(i int) int { return m.Not(e.inSet(s[i], set)) }
		// left cut: first position that is not in the set (or the end)
		type cut struct{ at, cond int }
		var lefts, rights []cut
		if pkgFn != "TrimRight" {
			for _, a := range e.firstWhere(len(s), notIn, false) {
				at := a.i
				if at < 0 {
					at = len(s)
				}
				lefts = append(lefts, cut{at, a.cond})
			}
		} else {
			lefts = []cut{{0, 1}}
		}
		if pkgFn != "TrimLeft" {
			for _, a := range e.firstWhere(len(s), notIn, true) {
				rights = append(rights, cut{a.i + 1, a.cond}) // -1+1 == 0: everything trimmed
			}
		} else {
			rights = []cut{{len(s), 1}}
		}
		var alts []ChoiceAlt
		for _, l := range lefts {
			for _, r := range rights {
				cnd := m.And(l.cond, r.cond)
				if cnd == 0 {
					continue
				}
				lo, hi := l.at, r.at
				if hi < lo {
					lo, hi = 0, 0 // all bytes in the set
				}
				alts = append(alts, ChoiceAlt{cnd, window(args[0], lo, hi)})
			}
		}
		return choice(alts), true
	case "Count":
		s, ok1 := e.strBytes(args[0])
		pat, ok2 := e.strBytes(args[1])
		if !ok1 || !ok2 || len(pat) != 1 {
			return Val{}, false
		}
		sum := e.Const(0, 64, true).Bits
		for i := range s {
			one := make([]int, 64)
			one[0] = e.eq(s[i], pat[0])
			sum = e.add(sum, one, 0)
		}
		return Val{Kind: KBits, Bits: sum, Signed: true}, true
	case "strconv.ParseUint", "strconv.Atoi":
		s, ok := e.strBytes(args[0])
		if !ok {
			return Val{}, false
		}
		max := uint64(1<<63 - 1)
		signed := true
		if pkgFn == "strconv.ParseUint" {
			base, okB := constOf(args[1])
			size, okS := constOf(args[2])
			if !okB || !okS || base != 10 || size < 1 || size > 32 {
				return Val{}, false
			}
			max, signed = uint64(1)<<uint(size)-1, false
		} else {
			// Atoi: an optional sign, then digits; modelled for texts of up to 18
			// bytes (no overflow of the 64-bit result is possible)
			if len(s) > 18 {
				return Val{}, false
			}
			if len(s) == 0 {
				return Val{Kind: KTuple, Tuple: []Val{e.Const(0, 64, true), BoolVal(1)}}, true
			}
			k8 := func(c byte) []int { return e.Const(int64(c), 8, false).Bits }
			plus, minus := e.eq(s[0], k8('+')), e.eq(s[0], k8('-'))
			sign := m.Or(plus, minus)
			digit := func(b []int) int {
				return m.And(m.Not(e.ult(b, k8('0'))), m.Not(e.ult(k8('9'), b)))
			}
			// value of s[from:] as digits
			valFrom := func(from int) (ok int, v []int) {
				ok = 1
				if from >= len(s) {
					return 0, e.Const(0, 64, true).Bits
				}
				v = e.Const(0, 64, false).Bits
				for i := from; i < len(s); i++ {
					ok = m.And(ok, digit(s[i]))
					d := e.extend(Val{Kind: KBits, Bits: e.sub(s[i], k8('0'))}, 64)
					v8 := make([]int, 64)
					copy(v8[3:], v[:61])
					v2 := make([]int, 64)
					copy(v2[1:], v[:63])
					v = e.add(e.add(v8, v2, 0), d, 0)
				}
				return ok, v
			}
			ok0, v0 := valFrom(0)
			ok1, v1 := valFrom(1)
			okBit := m.Or(m.And(m.Not(sign), ok0), m.And(sign, ok1))
			neg := e.sub(e.Const(0, 64, true).Bits, v1)
			out := make([]int, 64)
			for b := range out {
				signed := m.Ite(minus, neg[b], v1[b])
				out[b] = m.And(okBit, m.Ite(sign, signed, v0[b]))
			}
			return Val{Kind: KTuple, Tuple: []Val{{Kind: KBits, Bits: out, Signed: true}, BoolVal(m.Not(okBit))}}, true
		}
		if len(s) == 0 {
			return Val{Kind: KTuple, Tuple: []Val{e.Const(0, 64, signed), BoolVal(1)}}, true
		}
		digit := func(b []int) int {
			return m.And(m.Not(e.ult(b, e.Const('0', 8, false).Bits)), m.Not(e.ult(e.Const('9', 8, false).Bits, b)))
		}
		syntax := 1
		for i := range s {
			syntax = m.And(syntax, digit(s[i]))
		}
		// value of the last k digits (k = number of digits of max), the ones
		// before them must be zeros
		k := len(strconvUitoa(max))
		lead := 1
		first := 0
		if len(s) > k {
			first = len(s) - k
			for i := 0; i < first; i++ {
				lead = m.And(lead, e.eq(s[i], e.Const('0', 8, false).Bits))
			}
		}
		val := e.Const(0, 64, false).Bits
		ten := e.Const(10, 64, false)
		for i := first; i < len(s); i++ {
			d := e.extend(Val{Kind: KBits, Bits: e.sub(s[i], e.Const('0', 8, false).Bits)}, 64)
			// val = val*10 + d
			acc := make([]int, 64)
			for b := 0; b < 64; b++ {
				if ten.Bits[b] == 0 {
					continue
				}
				sh := make([]int, 64)
				copy(sh[b:], val[:64-b])
				acc = e.add(acc, sh, 0)
			}
			val = e.add(acc, d, 0)
		}
		inRange := m.And(lead, m.Not(e.ult(e.Const(int64(max), 64, false).Bits, val)))
		okBit := m.And(syntax, inRange)
		// as the library: the maximum on a range error, zero on a syntax error
		mx := e.Const(int64(max), 64, false).Bits
		for b := range val {
			val[b] = m.Ite(okBit, val[b], m.And(syntax, mx[b]))
		}
		return Val{Kind: KTuple, Tuple: []Val{{Kind: KBits, Bits: val, Signed: signed}, BoolVal(m.Not(okBit))}}, true
	}
	return Val{}, false
}

func strconvUitoa(v uint64) string {
	if v == 0 {
		return "0"
	}
	var b []byte
	for v > 0 {
		b = append([]byte{byte('0' + v%10)}, b...)
		v /= 10
	}
	return string(b)
}

// decodeRune lists the outcomes of decoding one UTF-8 sequence at the start of
// s (as `for range` over a string does): for each, the condition on the bytes,
// and the tuple (true, index, rune) with the width in Val.Lo.
func (e *Eval) decodeRune(s [][]int, index int) []ChoiceAlt {
	m := e.M
	k8 := func(v int) []int { return e.Const(int64(v), 8, false).Bits }
	between := func(b []int, lo, hi int) int {
		return m.And(m.Not(e.ult(b, k8(lo))), m.Not(e.ult(k8(hi), b)))
	}
	mk := func(r []int, width int) Val {
		rb := make([]int, 32)
		copy(rb, r)
		return Val{Kind: KTuple, Lo: width, Tuple: []Val{BoolVal(1), e.Const(int64(index), 64, true), {Kind: KBits, Bits: rb, Signed: true}}}
	}
	var alts []ChoiceAlt
	add := func(cond int, r []int, w int) {
		if cond != 0 {
			alts = append(alts, ChoiceAlt{cond, mk(r, w)})
		}
	}
	b0 := s[0]
	ascii := m.Not(b0[7])
	add(ascii, b0[:7], 1)
	if ascii == 1 {
		return alts
	}
	cont := func(i int) int {
		if i >= len(s) {
			return 0
		}
		return between(s[i], 0x80, 0xBF)
	}
	low6 := func(i int) []int { return s[i][:6] }
	valid := 0
	// two bytes
	if len(s) >= 2 {
		c := m.And(between(b0, 0xC2, 0xDF), cont(1))
		r := append(append([]int(nil), low6(1)...), b0[:5]...)
		add(c, r, 2)
		valid = m.Or(valid, c)
	}
	if len(s) >= 3 {
		second := m.Or(m.And(e.eq(b0, k8(0xE0)), between(s[1], 0xA0, 0xBF)),
			m.Or(m.And(m.Or(between(b0, 0xE1, 0xEC), between(b0, 0xEE, 0xEF)), between(s[1], 0x80, 0xBF)),
				m.And(e.eq(b0, k8(0xED)), between(s[1], 0x80, 0x9F))))
		c := m.And(second, cont(2))
		r := append(append(append([]int(nil), low6(2)...), low6(1)...), b0[:4]...)
		add(c, r, 3)
		valid = m.Or(valid, c)
	}
	if len(s) >= 4 {
		second := m.Or(m.And(e.eq(b0, k8(0xF0)), between(s[1], 0x90, 0xBF)),
			m.Or(m.And(between(b0, 0xF1, 0xF3), between(s[1], 0x80, 0xBF)),
				m.And(e.eq(b0, k8(0xF4)), between(s[1], 0x80, 0x8F))))
		c := m.And(second, m.And(cont(2), cont(3)))
		r := append(append(append(append([]int(nil), low6(3)...), low6(2)...), low6(1)...), b0[:3]...)
		add(c, r, 4)
		valid = m.Or(valid, c)
	}
	// anything else: RuneError, one byte
	inv := m.And(m.Not(ascii), m.Not(valid))
	add(inv, e.Const(0xFFFD, 32, true).Bits, 1)
	return alts
}

// IsPlainASCII: every byte of the string is ASCII for every input, and the
// text "xn--" (in any letter case) can occur nowhere in it — idna.ToASCII
// leaves such a name as it is.
func (e *Eval) IsPlainASCII(v Val) bool {
	s, ok := e.strBytes(v)
	if !ok {
		return false
	}
	for _, b := range s {
		if b[7] != 0 {
			return false
		}
	}
	fold := func(b []int, c byte) int {
		return e.M.Or(e.eq(b, e.Const(int64(c), 8, false).Bits), e.eq(b, e.Const(int64(c-32), 8, false).Bits))
	}
	dash := e.Const('-', 8, false).Bits
	for i := 0; i+4 <= len(s); i++ {
		if e.M.And(e.M.And(fold(s[i], 'x'), fold(s[i+1], 'n')), e.M.And(e.eq(s[i+2], dash), e.eq(s[i+3], dash))) != 0 {
			return false
		}
	}
	return true
}

// Ult8 is bits < c (unsigned, 8 bits); Ult8c is c < bits.
func (e *Eval) Ult8(bits []int, c byte) int  { return e.ult(bits, e.Const(int64(c), 8, false).Bits) }
func (e *Eval) Ult8c(c byte, bits []int) int { return e.ult(e.Const(int64(c), 8, false).Bits, bits) }

// Cut is one outcome of a trimming call: the window [Lo,Hi) under Cond.
type Cut struct{ Cond, Lo, Hi int }

// TrimSpaceCuts is strings.TrimSpace on a window of symbolic bytes that is
// valid UTF-8 under the condition given (0: any) (ok == false otherwise: the library's
// treatment of broken encodings at the right end is not modelled): leading and
// trailing runes with unicode.IsSpace are dropped.
func (e *Eval) TrimSpaceCuts(s [][]int, under int) (cuts []Cut, ok bool) {
	m := e.M
	here := under
	if here == 0 {
		here = 1
	}
	if e.Assume != 0 {
		here = m.And(here, e.Assume)
	}
	n := len(s)
	_, valid := e.RuneStarts(s)
	if m.And(here, m.Not(valid)) != 0 {
		return nil, false
	}
	is := func(i int, v byte) int { return e.eq(s[i], e.Const(int64(v), 8, false).Bits) }
	rng := func(i int, lo, hi byte) int {
		return m.And(m.Not(e.ult(s[i], e.Const(int64(lo), 8, false).Bits)), m.Not(e.ult(e.Const(int64(hi), 8, false).Bits, s[i])))
	}
	// space(i, w): the w bytes at i spell a white-space rune
	space := func(i, w int) int {
		if i < 0 || i+w > n {
			return 0
		}
		switch w {
		case 1:
			return m.Or(rng(i, 0x09, 0x0D), is(i, ' '))
		case 2:
			return m.And(is(i, 0xC2), m.Or(is(i+1, 0x85), is(i+1, 0xA0)))
		case 3:
			r := m.And(is(i, 0xE1), m.And(is(i+1, 0x9A), is(i+2, 0x80)))                                                       // U+1680
			e2 := m.And(is(i+1, 0x80), m.Or(rng(i+2, 0x80, 0x8A), m.Or(rng(i+2, 0xA8, 0xA9), is(i+2, 0xAF))))                  // U+2000..200A, 2028, 2029, 202F
			e2 = m.Or(e2, m.And(is(i+1, 0x81), is(i+2, 0x9F)))                                                                // U+205F
			r = m.Or(r, m.And(is(i, 0xE2), e2))
			return m.Or(r, m.And(is(i, 0xE3), m.And(is(i+1, 0x80), is(i+2, 0x80)))) // U+3000
		}
		return 0
	}
	anySpaceAt := func(i int) int { return m.Or(space(i, 1), m.Or(space(i, 2), space(i, 3))) }
	anySpaceEndingAt := func(q int) int { return m.Or(space(q-1, 1), m.Or(space(q-2, 2), space(q-3, 3))) }
	pre := make([]int, n+1) // s[:p] is white space only
	pre[0] = 1
	for p := 0; p < n; p++ {
		for w := 1; w <= 3 && p+w <= n; w++ {
			pre[p+w] = m.Or(pre[p+w], m.And(pre[p], space(p, w)))
		}
	}
	suf := make([]int, n+1) // s[q:] is white space only
	suf[n] = 1
	for q := n - 1; q >= 0; q-- {
		for w := 1; w <= 3 && q+w <= n; w++ {
			suf[q] = m.Or(suf[q], m.And(space(q, w), suf[q+w]))
		}
	}
	if c := m.And(here, pre[n]); c != 0 {
		cuts = append(cuts, Cut{pre[n], 0, 0})
	}
	for p := 0; p < n; p++ {
		left := m.And(pre[p], m.Not(anySpaceAt(p)))
		if m.And(here, left) == 0 {
			continue
		}
		for q := n; q > p; q-- {
			c := m.And(left, m.And(suf[q], m.Not(anySpaceEndingAt(q))))
			if m.And(here, c) != 0 {
				cuts = append(cuts, Cut{c, p, q})
			}
		}
	}
	return cuts, true
}
